"""BOUNDED jobs for the CSV properties C10, C11, C12 (and the A-RE-* dependency contracts of csv_utils).
The reference functions below are written from the property statements (declarative where the statement is),
independent of the code and of specs/csv.py; they also validate specs/csv.py's scanner formulation."""
import io
import itertools
import random
import re

from .registry import job
from .refsem import load_rbql


def words(alpha, maxlen, minlen=0):
    for n in range(minlen, maxlen + 1):
        for w in itertools.product(alpha, repeat=n):
            yield ''.join(w)


# ------------------------------------------------------------------ declarative dialect (C11 sentence)
def wesc(x):
    """interior with inner quotes doubled"""
    i = 0
    while i < len(x):
        if x[i] == '"':
            if i + 1 < len(x) and x[i + 1] == '"':
                i += 2
                continue
            return False
        i += 1
    return True


def quoted_ends(src, cidx, d):
    """all e such that src[cidx:e] is sp* " wesc " sp* (no sp* when d == ' ') and e == len or src[e] == d"""
    out = []
    allow = d != ' '
    for e in range(cidx + 2, len(src) + 1):
        seg = src[cidx:e]
        core = seg.strip(' ') if allow else seg
        if len(core) >= 2 and core[0] == '"' and core[-1] == '"' and wesc(core[1:-1]):
            if allow or seg == core:
                if e == len(src) or src[e] == d:
                    out.append((e, core[1:-1]))
    return out


def ref_split(src, d, preserve):
    """fields + warning, from the sentence of C11; asserts uniqueness of the quoted reading"""
    if src == '':
        return [''], False
    fields = []
    warn = False
    cidx = 0
    while cidx < len(src):
        ends = quoted_ends(src, cidx, d)
        assert len(ends) <= 1, ('ambiguous quoted field', src, cidx, ends)
        if ends:
            e, interior = ends[0]
            fields.append(src[cidx:e] if preserve else interior.replace('""', '"'))
            cidx = e + 1
        else:
            u = src.find(d, cidx)
            if u == -1:
                u = len(src)
            f = src[cidx:u]
            if '"' in f:
                warn = True
            fields.append(f)
            cidx = u + 1
    if src[-1] == d:
        fields.append('')
    return fields, warn


def replay_split(case):
    rbql, eng = load_rbql()
    from rbql import csv_utils
    got = csv_utils.split_quoted_str(case['src'], case['d'], case['preserve'])
    exp = ref_split(case['src'], case['d'], case['preserve'])
    return {'fails': (list(got[0]), got[1]) != (exp[0], exp[1]), 'src': case['src'], 'd': case['d'], 'expected': exp, 'observed': got}


@job('C11')
def split_dialect(prop, tier, seed):
    rbql, eng = load_rbql()
    from rbql import csv_utils
    maxlen = 7 if tier == 'quick' else 9
    fails = []
    n = 0
    distinct = 0
    for d in (',', ' '):
        alpha = ['"', d, 'x'] + ([' '] if d != ' ' else [])
        for src in words(alpha, maxlen):
            distinct += 1
            for preserve in (False, True):
                n += 1
                exp = ref_split(src, d, preserve)
                try:
                    got = csv_utils.split_quoted_str(src, d, preserve)
                    got = (list(got[0]), got[1])
                except Exception as e:
                    got = repr(e)
                ok = got == (exp[0], exp[1])
                if ok and preserve and d.join(got[0]) != src:
                    ok = False
                    got = ('re-join differs', got)
                if not ok:
                    fails.append({'replay': 'split', 'key': 'split:%r:%r:%r' % (src, d, preserve), 'src': src, 'd': d, 'preserve': preserve, 'expected': exp, 'observed': got})
                    if len(fails) >= 5:
                        break
            if len(fails) >= 5:
                break
            # simple / whitespace / monocolumn policies
            for policy, want in (('simple', src.split(d)), ('monocolumn', [src]), ('whitespace', [w for w in src.split(' ') if w != ''])):
                if policy == 'whitespace' and d != ' ':
                    continue
                n += 1
                got = csv_utils.smart_split(src, d, policy, False)
                if list(got[0]) != want or got[1]:
                    fails.append({'replay': 'none', 'key': 'smart:%s:%r' % (policy, src), 'src': src, 'policy': policy, 'expected': want, 'observed': got})
        if len(fails) >= 5:
            break
    # delimiters that are regular-expression metacharacters (or otherwise unusual) are ordinary single characters for the dialect
    for d in ('|', '.', '$', '*', '\\', '[', '(', ')', '+', '?', '^', '{', ';', '\t', '#', 'Д'):
        alpha = ['"', d, 'x', ' ']
        for src in words(alpha, 5 if tier == 'quick' else 6):
            distinct += 1
            for preserve in (False, True):
                n += 1
                exp = ref_split(src, d, preserve)
                try:
                    got = csv_utils.split_quoted_str(src, d, preserve)
                    got = (list(got[0]), got[1])
                except Exception as e:
                    got = repr(e)
                if got != (exp[0], exp[1]):
                    fails.append({'replay': 'split', 'key': 'split:%r:%r:%r' % (src, d, preserve), 'src': src, 'd': d, 'preserve': preserve, 'expected': exp, 'observed': got})
                    break
            if len(fails) >= 5:
                break
        if len(fails) >= 5:
            break
    # whitespace policy splits on runs of U+0020 only; characters outside the special classes are interchangeable
    rnd = random.Random(seed)
    others = ['x', '\t', ' ', 'é', '中', '\x0b', ';', '\\']
    for _ in range(3000):
        s = ''.join(rnd.choice(['"', ',', ' ', rnd.choice(others)]) for _ in range(rnd.randint(0, 14)))
        n += 1
        want = [w for w in s.split(' ') if w != '']
        got = csv_utils.smart_split(s, ' ', 'whitespace', False)
        if list(got[0]) != want:
            fails.append({'replay': 'none', 'key': 'ws:%r' % s, 'src': s, 'expected': want, 'observed': got})
            break
        t = s.replace('\t', 'x').replace(' ', 'x').replace('é', 'x').replace('中', 'x').replace('\x0b', 'x').replace(';', 'x').replace('\\', 'x')
        a = csv_utils.split_quoted_str(s, ',', True)
        b = csv_utils.split_quoted_str(t, ',', True)
        if [len(f) for f in a[0]] != [len(f) for f in b[0]] or a[1] != b[1]:
            fails.append({'replay': 'none', 'key': 'relabel:%r' % s, 'src': s, 'expected': 'same field boundaries after relabelling ordinary characters', 'observed': (a, b)})
            break
    return {'job': 'split_dialect', 'evaluations': n, 'distinct_nontrivial': distinct, 'exhaustive': True,
            'rule': 'all lines of length <= %d over {quote, delimiter, space, other} for delimiters "," and " ", both preserve modes: split_quoted_str vs the declarative C11 sentence (with uniqueness assertion) + re-join; simple/whitespace/monocolumn; 3000 seeded long lines over unicode (relabelling test)' % maxlen,
            'failures': fails, 'samples': ['"a,b",c', ' "x" ,y']}


# ------------------------------------------------------------------ dependency contracts of csv_utils (A-RE-field, A-RE-newline)
def spec_qclose(s, j):
    while True:
        if j < 0 or j >= len(s):
            return -1
        if s[j] != '"':
            j += 1
            continue
        if j + 1 < len(s) and s[j + 1] == '"':
            j += 2
            continue
        return j + 1


def spec_skip_sp(s, i):
    if i < 0 or i >= len(s):
        return len(s)
    while i < len(s) and s[i] == ' ':
        i += 1
    return i


@job('C11', 'C10')
def regex_assumptions(prop, tier, seed):
    """validates the assumed contracts of contracts/csv_utils.py against Python's re (A-RE-field)"""
    rbql, eng = load_rbql()
    from rbql import csv_utils
    maxlen = 7 if tier == 'quick' else 9
    fails = []
    n = 0
    for src in words(['"', ',', ' ', 'x'], maxlen):
        for pos in range(0, len(src) + 1):
            for ws in (False, True):
                rgx = csv_utils.field_rgx_external_whitespaces if ws else csv_utils.field_rgx
                m = rgx.match(src, pos)
                n += 1
                q = spec_skip_sp(src, pos) if ws else pos
                opens = q < len(src) and src[q] == '"'
                S = spec_qclose(src, q + 1) if opens else -1
                bad = None
                if not opens and m is not None:
                    bad = 'match without opening quote'
                elif opens and S != -1:
                    E = spec_skip_sp(src, S) if ws else S
                    if m is None or m.span() != (pos, E) or m.group(1) != src[q + 1:S - 1]:
                        bad = 'closed string: expected span %r group %r' % ((pos, E), src[q + 1:S - 1])
                elif opens and S == -1 and m is not None:
                    e = m.span()[1]
                    if not (e < len(src) and src[e] == '"'):
                        bad = 'unclosed match not followed by a quote'
                if bad:
                    fails.append({'replay': 'none', 'key': 'rgx:%r:%d:%r' % (src, pos, ws), 'src': src, 'pos': pos, 'expected': bad, 'observed': m.span() if m else None})
                    if len(fails) >= 5:
                        return {'job': 'regex_assumptions', 'evaluations': n, 'distinct_nontrivial': n, 'failures': fails, 'rule': 'see job'}
    return {'job': 'regex_assumptions', 'evaluations': n, 'distinct_nontrivial': n, 'exhaustive': True,
            'rule': 'every string of length <= %d over {quote, comma, space, x} x every position x both field regexes: the assumed contracts csv_utils.field_rgx*.match of contracts/csv_utils.py hold of Python\'s re' % maxlen,
            'failures': fails, 'assumptions': ['A-RE-field: validated boundedly, not proved']}


# ------------------------------------------------------------------ C10 round trip / C12 chunk independence
def representable(fields, policy, d):
    for f in fields:
        if f is None:
            return False
        if policy in ('simple', 'quoted', 'whitespace', 'monocolumn') and ('\n' in f or '\r' in f):
            return False
        if policy == 'simple' and d in f:
            return False
        if policy == 'whitespace' and (f == '' or ' ' in f):
            return False
    if policy == 'monocolumn' and len(fields) != 1:
        return False
    if policy == 'quoted' and False:
        return False
    return True


def write_table(table, d, policy, sep, encoding=None):
    rbql, eng = load_rbql()
    from rbql import rbql_csv
    out = io.StringIO() if encoding is None else io.BytesIO()
    w = rbql_csv.CSVWriter(out, False, encoding, d, policy, line_separator=sep)
    for r in table:
        w.write(list(r))
    w.finish()
    if encoding is not None:
        w.stream.flush()
    return out.getvalue(), w.get_warnings()


def read_table(data, d, policy, chunk_size=1024, encoding=None, comment_prefix=None, has_header=False, pieces=None):
    rbql, eng = load_rbql()
    from rbql import rbql_csv
    if pieces is not None:
        class Piecewise(object):
            def __init__(self, ps):
                self.ps = list(ps)

            def read(self, n=-1):
                while self.ps and self.ps[0] == '':
                    self.ps.pop(0)
                if not self.ps:
                    return ''
                p = self.ps[0]
                if n is None or n < 0 or n >= len(p):
                    return self.ps.pop(0)
                self.ps[0] = p[n:]
                return p[:n]
        stream = Piecewise(pieces)
    else:
        stream = io.StringIO(data) if encoding is None else io.BytesIO(data)
    it = rbql_csv.CSVRecordIterator(stream, encoding, d, policy, has_header=has_header, comment_prefix=comment_prefix, chunk_size=chunk_size)
    recs = it.get_all_records()
    return recs, it.get_header(), it.get_warnings()


def replay_roundtrip(case):
    table = case['table']
    text, ww = write_table(table, case['d'], case['policy'], case['sep'])
    recs, hdr, rw = read_table(text, case['d'], case['policy'])
    exp = [[f.replace('\r\n', '\n').replace('\r', '\n') for f in r] for r in table] if case['policy'] == 'quoted_rfc' else table
    return {'fails': recs != exp or bool(rw) or bool(ww), 'table': table, 'text': text, 'expected': exp, 'observed': recs, 'warnings': [ww, rw]}


@job('C10')
def csv_roundtrip(prop, tier, seed):
    fails = []
    n = 0
    cells_by_policy = {
        'simple': ['', 'a', '"', 'a b', '"x"'],
        'quoted': ['', 'a', '"', ',', 'a,b', '"x"', ' a ', 'a""b', ' "q" '],
        'quoted_rfc': ['', 'a', '"', ',', 'a\nb', 'x\r\ny', '\r', '"\n"', ' a ', 'a\n\ufeffb'],
        'whitespace': ['a', '"', 'a,b', '"x"'],
        'monocolumn': ['', 'a', 'a b', '"x",y'],
    }
    delims = {'simple': [',', '\t', '|'], 'quoted': [',', ';', '\t', ' '], 'quoted_rfc': [',', ';'], 'whitespace': [' '], 'monocolumn': ['']}
    maxrows = 2
    for policy, cells in cells_by_policy.items():
        widths = (1,) if policy == 'monocolumn' else (1, 2)
        rows = []
        for w in widths:
            rows.extend([list(r) for r in itertools.product(cells, repeat=w)])
        tables = [[r] for r in rows] + [[a, b] for a in rows for b in rows if len(a) == len(b)][:600]
        if tier == 'quick':
            rnd = random.Random(seed)
            if len(tables) > 250:
                tables = tables[:100] + rnd.sample(tables[100:], 150)
        for d in delims[policy]:
            for sep in ('\n', '\r\n', '\r'):
                for table in tables:
                    if not all(representable(r, policy, d) for r in table):
                        continue
                    if policy == 'quoted' and d == ' ' and any((' ' in f and f.strip(' ') != f and '"' in f) for r in table for f in r):
                        pass
                    n += 1
                    try:
                        text, ww = write_table(table, d, policy, sep)
                        recs, hdr, rw = read_table(text, d, policy)
                    except Exception as e:
                        recs, ww, rw, text = repr(e), [], [], None
                    exp = [[f.replace('\r\n', '\n').replace('\r', '\n') for f in r] for r in table] if policy == 'quoted_rfc' else table
                    if text is not None and text.startswith('﻿'):
                        continue
                    if recs != exp or ww or rw:
                        fails.append({'replay': 'roundtrip', 'key': 'rt:%s:%r:%r:%r' % (policy, d, sep, table), 'table': table, 'd': d, 'policy': policy, 'sep': sep, 'expected': exp, 'observed': recs, 'warnings': [ww, rw]})
                        if len(fails) >= 5:
                            break
                if len(fails) >= 5:
                    break
            if len(fails) >= 5:
                break
    # single-column tables with empty fields: an empty line is the record [''] (every policy but whitespace), wherever it stands
    for policy, d in (('simple', ','), ('simple', '\t'), ('quoted', ','), ('quoted', ';'), ('quoted_rfc', ','), ('monocolumn', '')):
        for table in ([['a'], [''], ['b']], [[''], ['']], [['']], [['a'], ['']], [[''], ['a']], [[''], [''], ['']]):
            for sep in ('\n', '\r\n'):
                n += 1
                try:
                    text, ww = write_table(table, d, policy, sep)
                    recs, hdr, rw = read_table(text, d, policy)
                except Exception as e:
                    recs, ww, rw = repr(e), [], []
                if recs != table or ww or rw:
                    fails.append({'replay': 'roundtrip', 'key': 'rt-empty-line:%s:%r:%r:%r' % (policy, d, sep, table), 'table': table, 'd': d, 'policy': policy, 'sep': sep, 'expected': table, 'observed': recs, 'warnings': [ww, rw]})
    # zero-field records under the whitespace policy: an empty line is a record without fields
    for table in ([[]], [[], []], [[], [], []]):      # rectangular (ragged tables rightly warn about field counts)
        for sep in ('\n', '\r\n'):
            n += 1
            try:
                text, ww = write_table(table, ' ', 'whitespace', sep)
                recs, hdr, rw = read_table(text, ' ', 'whitespace')
            except Exception as e:
                recs, ww, rw = repr(e), [], []
            if recs != table or ww or rw:
                fails.append({'replay': 'none', 'key': 'rt-ws-empty-record:%r:%r' % (sep, table), 'table': table, 'expected': table, 'observed': recs, 'warnings': [ww, rw]})
    # the same round trip through the utf-8 codec (BOM handling is encoding specific): BOM characters anywhere but the table start
    for policy, d, table in (('quoted_rfc', ',', [['a\n\ufeffb']]), ('quoted_rfc', ',', [['x', 'p\n\ufeff'], ['\ufeffy', 'z']]), ('quoted', ',', [['a', '\ufeffb'], ['\ufeffc', 'd']]),
                             ('simple', '\t', [['a', 'b'], ['\ufeffc', 'd']]), ('quoted_rfc', ';', [['a\r\n\ufeff\nb', 'c']])):
        for sep in ('\n', '\r\n'):
            n += 1
            try:
                data, ww = write_table(table, d, policy, sep, encoding='utf-8')
                recs, hdr, rw = read_table(data, d, policy, encoding='utf-8')
            except Exception as e:
                recs, ww, rw = repr(e), [], []
            exp = [[f.replace('\r\n', '\n').replace('\r', '\n') for f in r] for r in table] if policy == 'quoted_rfc' else table
            if recs != exp or ww or rw:
                fails.append({'replay': 'none', 'key': 'rt-utf8:%s:%r:%r' % (policy, sep, table), 'table': table, 'd': d, 'policy': policy, 'sep': sep, 'expected': exp, 'observed': recs, 'warnings': [ww, rw]})
    # lossy output is never silent
    for policy, d in (('simple', ','), ('simple', '\t'), ('whitespace', ' ')):
        for rec in (['a' + d + 'b'], ['x', 'a' + d + 'b'], [d], ['a' + d + 'b', ''], ['', 'x' + d + 'y', 'z']):
            n += 1
            text, ww = write_table([rec], d, policy, '\n')
            if not any('separator' in w for w in ww):
                fails.append({'replay': 'none', 'key': 'warn:delim:%s:%r' % (policy, rec), 'record': rec, 'policy': policy, 'expected': 'warning: Some output fields contain separator', 'observed': ww})
    for rec in ([None], ['a', None], [['x', None]], [None, None]):
        n += 1
        text, ww = write_table([rec], ',', 'quoted', '\n')
        if not any('None' in w for w in ww):
            fails.append({'replay': 'none', 'key': 'warn:none:%r' % (rec,), 'record': rec, 'expected': 'warning: None values in output', 'observed': ww})
    # latin-1 preserves every byte value (binary mode)
    allbytes = ''.join(chr(c) for c in range(256) if chr(c) not in '\r\n"')
    for chunk in (allbytes[:100], allbytes[100:], '\xa0x\x85', '\x0b\x0c\x1c'):
        n += 1
        table = [[chunk, 'k']]
        text, ww = write_table(table, ',', 'quoted', '\n', encoding='latin-1')
        recs, hdr, rw = read_table(text, ',', 'quoted', encoding='latin-1')
        if recs != table:
            fails.append({'replay': 'none', 'key': 'latin1:%r' % chunk[:8], 'expected': table, 'observed': recs})
    for f in ('a\tb', 'x\xa0y', 'p\x0bq', 'u\x85v', ' z'):
        n += 1
        table = [[f, 'k']]
        text, ww = write_table(table, ' ', 'whitespace', '\n')
        recs, hdr, rw = read_table(text, ' ', 'whitespace')
        if recs != table:
            fails.append({'replay': 'none', 'key': 'ws-field:%r' % f, 'expected': table, 'observed': recs})
    return {'job': 'csv_roundtrip', 'evaluations': n, 'distinct_nontrivial': n, 'exhaustive': tier != 'quick',
            'rule': 'tables of <=2 rows x <=2 fields over dialect-critical cells per policy x delimiters x line separators {LF, CRLF, CR}: CSVWriter then CSVRecordIterator returns the identical table with no warnings (quoted_rfc: CR/CRLF -> LF); lossy output (delimiter in simple field, None) always warns; latin-1 byte preservation',
            'failures': fails, 'samples': [[['a,b', '"x"']], [['a\nb']]]}


def lines_spec(text):
    """LF | CR | CRLF terminate a line; a final line without terminator is a line"""
    out = []
    cur = ''
    i = 0
    while i < len(text):
        c = text[i]
        if c == '\r':
            out.append(cur)
            cur = ''
            if i + 1 < len(text) and text[i + 1] == '\n':
                i += 1
        elif c == '\n':
            out.append(cur)
            cur = ''
        else:
            cur += c
        i += 1
    if cur != '':
        out.append(cur)
    return out


def ref_read(text, d, policy, comment_prefix, has_header):
    """records/header/warning kinds from the C12 statement"""
    warnings = set()
    lines = lines_spec(text)
    if lines and lines[0].startswith('﻿'):
        lines[0] = lines[0][1:]
        warnings.add('bom')
    recs = []
    i = 0
    while i < len(lines):
        line = lines[i]
        i += 1
        if policy == 'quoted_rfc' and not (comment_prefix and line.startswith(comment_prefix)):
            while line.count('"') % 2 == 1 and i < len(lines):
                line = line + '\n' + lines[i]
                i += 1
        if comment_prefix and line.startswith(comment_prefix):
            continue
        if policy in ('quoted', 'quoted_rfc'):
            f, w = ref_split(line, d, False)
            if w:
                warnings.add('quoting')
                if policy == 'quoted_rfc':
                    return 'error', None, None
        elif policy == 'simple':
            f = line.split(d)
        else:
            f = [line]
        recs.append(f)
    header = None
    if has_header and recs:
        header = recs[0]
        recs = recs[1:]
    elif has_header:
        header = None
    if len(set(len(r) for r in (recs if not has_header else ([header] if header else []) + recs))) > 1:
        warnings.add('fields')
    return recs, header, warnings


def warn_kinds(ws):
    out = set()
    for w in ws:
        if 'BOM' in w:
            out.add('bom')
        elif 'double quote' in w:
            out.add('quoting')
        elif 'Number of fields' in w:
            out.add('fields')
        else:
            out.add(w)
    return out


def partitions(text):
    n = len(text)
    if n == 0:
        yield []
        return
    for mask in range(1 << (n - 1)):
        parts = []
        cur = text[0]
        for i in range(1, n):
            if mask >> (i - 1) & 1:
                parts.append(cur)
                cur = text[i]
            else:
                cur += text[i]
        parts.append(cur)
        yield parts


def replay_chunks(case):
    try:
        got = read_table(case['text'], case['d'], case['policy'], chunk_size=case.get('chunk', 1024), comment_prefix=case.get('comment'), has_header=case.get('header', False), pieces=case.get('pieces'))
        got = (got[0], got[1], sorted(warn_kinds(got[2])))
    except Exception as e:
        got = type(e).__name__
    exp = ref_read(case['text'], case['d'], case['policy'], case.get('comment'), case.get('header', False))
    exp = 'RbqlIOHandlingError' if exp[0] == 'error' else (exp[0], exp[1], sorted(exp[2]))
    return {'fails': got != exp, 'text': case['text'], 'expected': exp, 'observed': got}


@job('C12')
def chunk_independence(prop, tier, seed):
    maxlen = 5 if tier == 'quick' else 7
    alpha = ['a', '"', ',', '\n', '\r', '#', ' ']
    fails = []
    n = 0
    distinct = 0
    rnd = random.Random(seed)
    if tier == 'quick':
        texts = list(words(alpha, 5))
        texts = [t for t in texts if len(t) <= 4] + rnd.sample([t for t in texts if len(t) == 5], 2500)
    else:
        # exhaustive to length 5; lengths 6 and 7 (117 649 and 823 543 texts) are seeded samples so that the run stays within minutes
        texts = list(words(alpha, 5))
        texts += [''.join(rnd.choice(alpha) for _ in range(6)) for _ in range(20000)]
        texts += [''.join(rnd.choice(alpha) for _ in range(7)) for _ in range(10000)]
    for text in texts:
        distinct += 1
        for policy in ('simple', 'quoted', 'quoted_rfc'):
            for comment, header in ((None, False), ('#', True)):
                exp = ref_read(text, ',', policy, comment, header)
                exp = 'RbqlIOHandlingError' if exp[0] == 'error' else (exp[0], exp[1], sorted(exp[2]))
                variants = [('chunk', c, None) for c in (1, 2, 3, len(text) + 1)]
                if len(text) <= 4:
                    variants += [('pieces', 1024, p) for p in partitions(text)]
                else:
                    variants += [('pieces', 1024, p) for p in itertools.islice(partitions(text), 0, 16, 3)]
                for kind, chunk, pieces in variants:
                    n += 1
                    try:
                        got = read_table(text, ',', policy, chunk_size=chunk, comment_prefix=comment, has_header=header, pieces=pieces)
                        got = (got[0], got[1], sorted(warn_kinds(got[2])))
                    except Exception as e:
                        got = type(e).__name__
                    if got != exp:
                        fails.append({'replay': 'chunks', 'key': 'chunks:%r:%s:%r:%r:%r' % (text, policy, comment, chunk, pieces), 'text': text, 'd': ',', 'policy': policy,
                                      'comment': comment, 'header': header, 'chunk': chunk, 'pieces': pieces, 'expected': exp, 'observed': got})
                        break
                if len(fails) >= 5:
                    break
            if len(fails) >= 5:
                break
        if len(fails) >= 5:
            break
    # byte-level partitions of multi-byte UTF-8 samples, and BOM handling in both encodings
    rbql, eng = load_rbql()
    from rbql import rbql_csv
    for sample in ('é,x\n中\n', '﻿a,b\nc', 'a\r\nß\r', 'x,"é\n中"\n', '😀,1\n'):
        data = sample.encode('utf-8')
        whole = None
        for csize in (1, 2, 3, 5, 1024):
            n += 1
            try:
                it = rbql_csv.CSVRecordIterator(io.BytesIO(data), 'utf-8', ',', 'quoted_rfc', chunk_size=csize)
                r = (it.get_all_records(), sorted(warn_kinds(it.get_warnings())))
            except Exception as e:        # the reader rejecting (or choking on) valid input for some chunk size is an observed result, not a harness failure
                r = ('error', type(e).__name__, str(e)[:200])
            if whole is None:
                whole = r
                expw = ['bom'] if sample.startswith('﻿') else []
                if r[0] == 'error' or [w for w in r[1] if w == 'bom'] != expw:
                    fails.append({'replay': 'none', 'key': 'bom-warn:%r' % sample, 'expected': expw, 'observed': r[1]})
            elif r != whole:
                fails.append({'replay': 'none', 'key': 'bytes:%r:%d' % (sample, csize), 'expected': whole, 'observed': r})
    for csize in (1, 2, 3, 1024):
        n += 1
        try:
            it = rbql_csv.CSVRecordIterator(io.BytesIO(b'\xef\xbb\xbfa,b\nc,d\n'), 'latin-1', ',', 'simple', chunk_size=csize)
            r = (it.get_all_records(), sorted(warn_kinds(it.get_warnings())))
        except Exception as e:
            r = ('error', type(e).__name__, str(e)[:200])
        if r != ([['a', 'b'], ['c', 'd']], ['bom']):
            fails.append({'replay': 'none', 'key': 'bom-latin1:%d' % csize, 'expected': ([['a', 'b'], ['c', 'd']], ['bom']), 'observed': r})
    # a BOM character that is not at the start of the stream is data
    for text in ('a\n﻿b\n', 'x,"p\n﻿q"\n'):
        n += 1
        recs, hdr, ws = read_table(text, ',', 'quoted_rfc')
        if not any('﻿' in f for r in recs for f in r) or ws:
            fails.append({'replay': 'none', 'key': 'bom-later:%r' % text, 'expected': 'BOM character kept as data, no warning', 'observed': (recs, ws)})
    return {'job': 'chunk_independence', 'evaluations': n, 'distinct_nontrivial': distinct, 'exhaustive': False,
            'rule': ('quick: all texts of length <= 4 and 2500 seeded of length 5; ' if tier == 'quick' else 'thorough: all texts of length <= 5, 20000 seeded of length 6, 10000 seeded of length 7; ') + 'texts over {a, quote, comma, LF, CR, #, space} (bound %d) x policies {simple, quoted, quoted_rfc} x comment/header on-off x chunk sizes 1,2,3,n+1 and read partitions (all 2^(n-1) for n <= 4): records, header and warning kinds equal the declarative reading of C12; byte-level chunks of multi-byte UTF-8 samples; BOM in utf-8 and latin-1' % maxlen,
            'failures': fails, 'samples': ['a\r\nb', '"x\ny",z\n']}
