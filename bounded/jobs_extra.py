"""BOUNDED targeted cases: corners of the property quantifiers that the generated domains of the other jobs do not reach
(duplicate EXCEPT columns, raw TAB / clause-like text inside literals, mixed-type cells, integers beyond 2**53, zero-field
records, non-constant group columns cut off by LIMIT, ...).  Every expectation is written out from the property statement.
Each case: (properties, key, query, A, B, names_a, names_b, expected) with expected = ('ok', rows) | ('ok+hdr', rows, header) |
('error', class name)."""
import copy
from decimal import Decimal
from fractions import Fraction

from .registry import job
from .refsem import load_rbql

TAB = '\t'
BIG = 9007199254740993          # 2**53 + 1: not representable as a double

CASES = [
    # ---- C01 / C05 / C08 / C09: string literals are opaque, also for tabs and clause-like text
    (('C01', 'C08'), 'lit:raw-tab:select', "select 'p" + TAB + "q', a1", [['x']], None, None, None, ('ok', [['p' + TAB + 'q', 'x']])),
    (('C01', 'C08'), 'lit:raw-tab:where', "select a1 where a2 == '" + TAB + "'", [['x', TAB], ['y', ' ']], None, None, None, ('ok', [['x']])),
    (('C01', 'C08'), 'lit:raw-tab:split', "select a1.split('" + TAB + "')[1]", [['u' + TAB + 'v']], None, None, None, ('ok', [['v']])),
    (('C05', 'C08'), 'lit:update:bracket-text', 'update a2 = "copy of a[1]", a3 = a1', [['1', '2', '3']], None, None, None, ('ok', [['1', 'copy of a[1]', '1']])),
    (('C05', 'C08'), 'lit:update:from-a-text', 'update set a3 = "gift from a friend"', [['1', '2', '3']], None, None, None, ('ok', [['1', '2', 'gift from a friend']])),
    (('C05', 'C08'), 'lit:update:from-a-where', "update a1 = 'z' where a2 == 'letter from a fan'", [['1', 'letter from a fan'], ['2', 'letter fan']], None, None, None,
     ('ok', [['z', 'letter from a fan'], ['2', 'letter fan']])),
    (('C05', 'C08'), 'lit:update:attr-text', "update a3 = 'see a.id'", [['1', '2', '3']], None, ['id', 'x', 'y'], None, ('ok', [['1', '2', 'see a.id']])),
    (('C05', 'C08'), 'lit:update:update-a-set-text', "update a2 = 'update a set b'", [['1', '2']], None, None, None, ('ok', [['1', 'update a set b']])),
    (('C01', 'C08'), 'lit:select:star-text', "select 'p, *, q', a1", [['x']], None, None, None, ('ok', [['p, *, q', 'x']])),
    (('C01', 'C08', 'C07'), 'lit:select:as-text', "select 'first as one, second', a1", [['x']], None, None, None, ('ok', [['first as one, second', 'x']])),
    (('C01', 'C08'), 'lit:select:count-text', "select 'n,COUNT(*)', a1", [['x']], None, None, None, ('ok', [['n,COUNT(*)', 'x']])),
    (('C09', 'C08'), 'lit:name:raw-tab', 'select a["first' + TAB + 'last"], a["first last"]', [['1', '2']], None, ['first' + TAB + 'last', 'first last'], None, ('ok', [['1', '2']])),
    # ---- characters that str.splitlines() treats as line breaks are ordinary characters inside literals and column names
    (('C01', 'C08', 'C05', 'C09'), 'lit:unicode-linebreaks:select', "select 'p\u2028q', 'r\x0bs', 't\x85u', 'v\x1cw', 'x\u2029y\x0cz', a1", [['1']], None, None, None,
     ('ok', [['p\u2028q', 'r\x0bs', 't\x85u', 'v\x1cw', 'x\u2029y\x0cz', '1']])),
    (('C01', 'C08'), 'lit:unicode-linebreaks:where', "select a1 where a2 == 'k\u2028' or a2 == '\x0c#k'", [['1', 'k\u2028'], ['2', 'k '], ['3', '\x0c#k'], ['4', 'k']], None, None, None, ('ok', [['1'], ['3']])),
    (('C05', 'C08'), 'lit:unicode-linebreaks:update', "update a2 = 'm\x85n' where a1 == '\x1d'", [['\x1d', 'q'], [' ', 'q']], None, None, None, ('ok', [['\x1d', 'm\x85n'], [' ', 'q']])),
    (('C09', 'C08'), 'lit:name:unicode-linebreak', 'select a["x\u2028y"], a["x y"], a[\'x\x0by\']', [['1', '2', '3']], None, ['x\u2028y', 'x y', 'x\x0by'], None, ('ok', [['1', '2', '3']])),
    (('C08',), 'comment-after-semicolon', 'select a1 order by a1 desc;\n# note\n  # second note', [['1'], ['2']], None, None, None, ('ok', [['2'], ['1']])),
    (('C08', 'C09'), 'comment-mentions-unknown-column', 'select a.id\n# select a.fullname, b.area\nwhere a.id != "0"', [['1'], ['0']], None, ['id'], None, ('ok', [['1']])),
    # ---- C01: keyword arguments inside select items are ordinary Python, not assignments
    (('C01',), 'select:kwarg', "select int(a1, base=16), sorted([a2, a1], reverse=True)[0], a2.split('|', maxsplit=1)[1]", [['ff', 'x|y|z']], None, None, None, ('ok', [[255, 'x|y|z', 'y|z']])),
    (('C01',), 'select:kwarg:unnest', "select a1, UNNEST(a2.split('|', maxsplit=1))", [['k', 'x|y|z']], None, None, None, ('ok', [['k', 'x'], ['k', 'y|z']])),
    (('C01', 'C14'), 'where:assignment-rejected', 'select a1 where a1 = 1', [['1']], None, None, None, ('error', 'RbqlParsingError')),
    # ---- C14: a second UNNEST is a parsing error at the first selected record, also when the first list is empty
    (('C14', 'C01'), 'unnest:two:first-empty', 'select UNNEST(a1.split()), UNNEST(a2.split())', [['', 'p q'], ['x y', 'r']], None, None, None, ('error', 'RbqlParsingError')),
    (('C14', 'C01'), 'unnest:two:all-empty', 'select UNNEST(a1.split()), UNNEST(a2.split())', [['', ''], ['', '']], None, None, None, ('error', 'RbqlParsingError')),
    (('C01',), 'unnest:empty-list', 'select a2, UNNEST(a1.split())', [['', 'k'], ['x y', 'r']], None, None, None, ('ok', [['r', 'x'], ['r', 'y']])),
    # ---- C13 / C05 / C06: the same row object several times in a list table is still one independent record each time
    (('C13', 'C05', 'C06'), 'update:same-row-object-thrice', "update set a2 = a2 + '!'", ('ALIAS', ['rome', 'it'], 3), None, None, None, ('ok', [['rome', 'it!'], ['rome', 'it!'], ['rome', 'it!']]), {'sources': True}),
    (('C13', 'C05', 'C06'), 'update:sources-kept', "update set a1 = a1 + a2", [['p', 'q'], ['r', 's']], None, None, None, ('ok', [['pq', 'q'], ['rs', 's']]), {'sources': True}),
    # ---- C16 / C06: an output record is never one of the caller's input or join rows (a writer may edit what it is given)
    (('C16', 'C06', 'C01'), 'select-star:fresh-records', 'select *', [['1', 'x'], [None, 'y']], None, None, None, ('ok', [['1', 'x'], [None, 'y']]), {'fresh': True, 'sources': True}),
    (('C16', 'C06', 'C01'), 'select-a-star:fresh-records', 'select a.*', [['1', 'x'], [None, 'y']], None, ['k', 'v'], None, ('ok', [['1', 'x'], [None, 'y']]), {'fresh': True, 'sources': True}),
    (('C16', 'C06', 'C04'), 'select-b-star:fresh-records', 'select b.* join B on a1 == b1', [['1'], ['2']], [['2', 'q'], ['1', None]], None, None, ('ok', [['1', None], ['2', 'q']]), {'fresh': True, 'sources': True}),
    (('C16', 'C06', 'C01'), 'select-star:where:fresh-records', 'select * where a1 is not None', [['1', 'x'], [None, 'y']], None, None, None, ('ok', [['1', 'x']]), {'fresh': True, 'sources': True}),
    # ---- C05 / C14: a field beyond the column names is still a field of the records that have it (ragged table with names)
    (('C05', 'C14'), 'update:field-beyond-the-names:guarded', "update a3 = 'x' where NF == 3", [['1', '2'], ['3', '4', '5']], None, ['k', 'v'], None, ('ok+hdr', [['1', '2'], ['3', '4', 'x']], ['k', 'v'])),
    (('C05', 'C14'), 'update:field-beyond-the-names:subscript', 'update set a[3] = a1 where NF == 3', [['1', '2'], ['3', '4', '5']], None, ['k', 'v'], None, ('ok+hdr', [['1', '2'], ['3', '4', '3']], ['k', 'v'])),
    (('C05', 'C14'), 'update:field-beyond-the-names:missing', "update a3 = 'x'", [['1', '2', '0'], ['3', '4']], None, ['k', 'v', 'w'], None, ('error', 'RbqlRuntimeError')),
    # ---- C14 / C09: direct mode: a column name of both tables that the query uses is a parsing error wherever it stands, also as the very last token
    (('C14', 'C09'), 'direct:ambiguous-name:last-token', 'select a1, b2 join B on a1 == b1 order by foo', [['1', 'p']], [['1', 'q']], ['k', 'foo'], ['j', 'foo'], ('error', 'RbqlParsingError'), {'normalize': False}),
    (('C14', 'C09'), 'direct:ambiguous-name:where-end', 'select a1 join B on a1 == b1 where k != foo', [['1', 'p']], [['1', 'q']], ['k', 'foo'], ['j', 'foo'], ('error', 'RbqlParsingError'), {'normalize': False}),
    (('C14', 'C09'), 'direct:ambiguous-name:first-token-of-where', 'select a1 join B on a1 == b1 where foo != k', [['1', 'p']], [['1', 'q']], ['k', 'foo'], ['j', 'foo'], ('error', 'RbqlParsingError'), {'normalize': False}),
    (('C14', 'C09'), 'direct:shared-name-not-used', 'select k, j join B on a1 == b1', [['1', 'p']], [['1', 'q']], ['k', 'foo'], ['j', 'foo'], ('ok', [['1', '1']]), {'normalize': False}),
    # ---- C05 / C09: there is no field number 0
    (('C05', 'C09'), 'update:zero-subscript', "update a[0] = 'X'", [['1', 'x']], None, None, None, ('error', 'RbqlParsingError')),
    (('C05', 'C09'), 'update:zero-subscript:second', "update a[1] = 'ok', a[0] = 'X' where a1 == '1'", [['1', 'x']], None, None, None, ('error', 'RbqlParsingError')),
    (('C01', 'C09'), 'select:zero-subscript', 'select a[0]', [['1', 'x']], None, None, None, ('error', 'RbqlRuntimeError')),
    # ---- C09 / C07: column names used directly (normalize_column_names=False) that look like aN-variables
    (('C09', 'C07'), 'direct:prefix-name', 'select a1c, hba', [['1', '2']], None, ['hba', 'a1c'], None, ('ok+hdr', [['2', '1']], ['a1c', 'hba']), {'normalize': False}),
    (('C09', 'C07'), 'direct:prefix-name:b', 'select a2x, b1_name join B on a2x == b1_name', [['1', '2']], [['2']], ['k', 'a2x'], ['b1_name'], ('ok+hdr', [['2', '2']], ['a2x', 'b1_name']), {'normalize': False}),
    (('C09',), 'direct:aN-names-permuted', 'select a2, a1, a3', [['1', '2', '3']], None, ['a3', 'a1', 'a2'], None, ('ok', [['3', '2', '1']]), {'normalize': False}),
    (('C09',), 'direct:bN-names-permuted', 'select b2, b1 join B on k == b1', [['9']], [['8', '9']], ['k'], ['b2', 'b1'], ('ok', [['8', '9']]), {'normalize': False}),
    # ---- C07: a select list whose first item opens and whose last item closes a parenthesis is still a list
    (('C07',), 'hdr:paren-first-last', 'select (int(a1) + 1) * 2, len(a2)', [['1', 'ab']], None, ['p', 'q'], None, ('ok+hdr', [[4, 2]], ['col1', 'col2'])),
    (('C07',), 'hdr:paren-each', 'select (a1), (a2)', [['1', 'ab']], None, ['p', 'q'], None, ('ok+hdr', [['1', 'ab']], ['p', 'q'])),
    # ---- C04: the LEFT JOIN null record is as wide as the widest B record, with or without column names
    (('C04',), 'leftjoin:ragged-wide-B:names', 'select * left join B on a1 == b1', [['x', '10'], ['y', '20'], ['z', '30']], [['x', 'one'], ['z', 'three', 'extra']], ['id', 'amount'], ['id', 'word'],
     ('ok', [['x', '10', 'x', 'one'], ['y', '20', None, None, None], ['z', '30', 'z', 'three', 'extra']])),
    (('C04',), 'leftjoin:ragged-wide-B:bNF', 'select a1, b.*, bNF left outer join B on a1 == b1', [['x', '10'], ['y', '20']], [['x', 'one'], ['z', 'three', 'extra']], ['id', 'amount'], ['id', 'word'],
     ('ok', [['x', 'x', 'one', 2], ['y', None, None, None, 3]])),
    # ---- C01: EXCEPT names a column more than once (same or different spelling)
    (('C01',), 'except:dup:same', 'select * except a2, a2', [['p', 'q', 'r'], ['s', 't', 'u']], None, None, None, ('ok', [['p', 'r'], ['s', 'u']])),
    (('C01',), 'except:dup:spelling', 'select * except a2, a[2]', [['p', 'q', 'r']], None, None, None, ('ok', [['p', 'r']])),
    (('C01',), 'except:dup:three', 'select * except a1, a3, a1', [['p', 'q', 'r']], None, None, None, ('ok', [['q']])),
    (('C01', 'C07'), 'except:dup:hdr', 'select * except a2, a.name', [['1', 'n', 'x']], None, ['id', 'name', 'v'], None, ('ok+hdr', [['1', 'x']], ['id', 'v'])),
    (('C01', 'C07'), 'except:dup:hdr2', 'select * except a["id"], a1', [['1', 'n', 'x']], None, ['id', 'name', 'v'], None, ('ok+hdr', [['n', 'x']], ['name', 'v'])),
    (('C01',), 'except:ragged-short', 'select * except a3', [['p', 'q', 'r'], ['s']], None, None, None, ('ok', [['p', 'q'], ['s']])),
    # ---- C01: star before UNNEST over ragged rows
    (('C01',), 'unnest:star-first:ragged', "select *, UNNEST(a1.split(';'))", [['a;b', 'k'], ['c']], None, None, None, ('ok', [['a;b', 'k', 'a'], ['a;b', 'k', 'b'], ['c', 'c']])),
    # ---- C02: DISTINCT compares records by value and type
    (('C02',), 'distinct:int-vs-str', 'select distinct a1', [[1], ['1'], [1], ['1']], None, None, None, ('ok', [[1], ['1']])),
    (('C02',), 'distinct:none-vs-str', 'select distinct a1', [[None], ['None'], [None]], None, None, None, ('ok', [[None], ['None']])),
    (('C02',), 'distinct:order-key-not-selected', 'select distinct a1 order by int(a2)', [['x', '5'], ['y', '3'], ['x', '1']], None, None, None, ('ok', [['x'], ['y']])),
    (('C02',), 'distinct-count:top:reappearing', 'select top 1 distinct count a1', [['a'], ['b'], ['a']], None, None, None, ('ok', [[2, 'a']])),
    (('C02',), 'top:zero', 'select top 0 a1', [['a'], ['b']], None, None, None, ('ok', [])),
    # ---- C03: numeric strings are converted exactly; non-constant columns fail even when LIMIT cuts the group off
    (('C03',), 'agg:bigint:max', 'select MAX(a1)', [[str(BIG)], ['1']], None, None, None, ('ok', [[BIG]])),
    (('C03',), 'agg:bigint:min', 'select MIN(a1)', [[str(BIG)], [str(BIG + 2)]], None, None, None, ('ok', [[BIG]])),
    (('C03',), 'agg:bigint:sum', 'select SUM(a1)', [[str(BIG)], ['0']], None, None, None, ('ok', [[BIG]])),
    (('C03',), 'agg:bigint:median', 'select MEDIAN(a1)', [[str(BIG)]], None, None, None, ('ok', [[BIG]])),
    (('C03',), 'agg:bigint:variance', 'select VARIANCE(a1)', [[str(BIG)], [str(BIG + 2)]], None, None, None, ('ok', [[1.0]])),
    (('C03', 'C14'), 'agg:nonconst:limit', 'select a1, a2, COUNT(*) group by a1 limit 1', [['ant', '1'], ['car', '2'], ['dog', '3'], ['dog', '4']], None, None, None, ('error', 'RbqlRuntimeError')),
    (('C03', 'C14'), 'agg:nonconst:top', 'select top 1 a1, a2 group by a1', [['ant', '1'], ['dog', '3'], ['dog', '4']], None, None, None, ('error', 'RbqlRuntimeError')),
    (('C03', 'C02'), 'agg:top0', 'select top 0 COUNT(*)', [['a'], ['b']], None, None, None, ('ok', [])),
    (('C03', 'C02'), 'agg:limit0:group', 'select a1, COUNT(*) group by a1 limit 0', [['a'], ['b'], ['a']], None, None, None, ('ok', [])),
    (('C03', 'C02'), 'agg:top1:group', 'select top 1 a1, COUNT(*) group by a1', [['b'], ['a'], ['b']], None, None, None, ('ok', [['a', 1]])),
    (('C03', 'C02'), 'agg:limit2:group', 'select a1, SUM(a2) group by a1 limit 2', [['c', '1'], ['a', '2'], ['b', '3'], ['a', '4']], None, None, None, ('ok', [['a', 6], ['b', 3]])),
    # lower-case min/max/sum: aggregate for one scalar argument of any ordered type, Python builtin for an iterable (also one without len()) or several arguments
    (('C03',), 'agg:lower-min:fraction', 'select min(Fraction(a1))', [['3'], ['1'], ['2']], None, None, None, ('ok', [[Fraction(1)]]), {'init': 'from fractions import Fraction'}),
    (('C03',), 'agg:lower-max:fraction', 'select max(Fraction(a1))', [['3'], ['1'], ['2']], None, None, None, ('ok', [[Fraction(3)]]), {'init': 'from fractions import Fraction'}),
    (('C03',), 'agg:lower-min:decimal:group', 'select a1, min(Decimal(a2)), max(Decimal(a2)) group by a1', [['k', '2.5'], ['k', '1.5'], ['j', '7']], None, None, None,
     ('ok', [['j', Decimal('7'), Decimal('7')], ['k', Decimal('1.5'), Decimal('2.5')]]), {'init': 'from decimal import Decimal'}),
    (('C03',), 'builtin:max:generator', 'select a1, max(int(x) for x in (a2, a3))', [['r', '1', '5'], ['s', '7', '2']], None, None, None, ('ok', [['r', 5], ['s', 7]])),
    (('C03',), 'builtin:min:map', 'select a1, min(map(int, [a2, a3]))', [['r', '1', '5'], ['s', '7', '2']], None, None, None, ('ok', [['r', 1], ['s', 2]])),
    (('C03',), 'builtin:sum:generator', 'select a1, sum(int(x) for x in (a2, a3))', [['r', '1', '5'], ['s', '7', '2']], None, None, None, ('ok', [['r', 6], ['s', 9]])),
    (('C03',), 'builtin:max:iterator', 'select max(iter([int(a2), int(a3)]))', [['r', '1', '5']], None, None, None, ('ok', [[5]])),
    (('C03',), 'agg-of-builtin:generator', 'select SUM(max(int(x) for x in (a2, a3))), MIN(min(int(x) for x in (a2, a3)))', [['r', '1', '5'], ['s', '7', '2']], None, None, None, ('ok', [[12, 1]])),
    (('C03',), 'builtin:max:two-args', 'select max(int(a2), int(a3)), min(a2, a3)', [['r', '1', '5'], ['s', '7', '2']], None, None, None, ('ok', [[5, '1'], [7, '2']])),
    (('C03',), 'agg:any-value:first', 'select ANY_VALUE(a1), MAX(a2)', [['p', '1'], ['q', '5']], None, None, None, ('ok', [['p', 5]])),
    (('C03',), 'agg:any-value:alone', 'select ANY_VALUE(a1)', [['p'], ['q']], None, None, None, ('ok', [['p']])),
    (('C03',), 'agg:array-agg', 'select a1, ARRAY_AGG(a2) group by a1', [['k', '1'], ['j', '2'], ['k', '3']], None, None, None, ('ok', [['j', ['2']], ['k', ['1', '3']]])),
    # ---- C04: zero-field B records, all five join spellings on unmatched records, strict join with duplicates
    (('C04',), 'join:empty-b-record:nr', 'select a1, b1 join b on NR == bNR', [['a'], ['b'], ['c']], [['x'], [], ['z']], None, None, ('ok', [['a', 'x'], ['b', None], ['c', 'z']])),
    (('C04', 'C08'), 'join:left-outer:unmatched', 'select a1, b2 left outer join b on a1 == b1', [['k', '1'], ['m', '2']], [['k', 'p']], None, None, ('ok', [['k', 'p'], ['m', None]])),
    (('C04',), 'join:left:unmatched', 'select a1, b2 left join b on a1 == b1', [['k', '1'], ['m', '2']], [['k', 'p']], None, None, ('ok', [['k', 'p'], ['m', None]])),
    (('C04',), 'join:strict:two-matches', 'select a1, b2 strict left join b on a1 == b1', [['k', '1']], [['k', 'p'], ['k', 'q']], None, None, ('error', 'RbqlRuntimeError')),
    (('C04', 'C14'), 'join:multikey:short-b', 'select a1, b3 join b on a1 == b1 and a2 == b2', [['k', '1']], [['k']], None, None, ('error', 'RbqlRuntimeError')),
    (('C04', 'C07'), 'join:left:star:unmatched:hdr', 'select a.k, * left join b on a.k == b.k2', [['x', '1'], ['y', '2']], [['x', 'p']], ['k', 'v'], ['k2', 'w'],
     ('ok+hdr', [['x', 'x', '1', 'x', 'p'], ['y', 'y', '2', None, None]], ['k', 'k', 'v', 'k2', 'w'])),
    # ---- C05: UPDATE works on a copy of every record (the same row object listed twice)
    (('C05', 'C06'), 'update:same-row-object-twice', 'update a1 = int(a1) + 1', 'SAME_ROW_TWICE', None, None, None, ('ok', [[2], [2]])),
    # ---- C07: names of subscripts of non-table variables
    (('C07',), 'hdr:subscript-of-other-variable', 'select a1, labels["name"], a.name', [['1', 'n']], None, ['id', 'name'], None, ('ok+hdr', [['1', 'L', 'n']], ['id', 'col2', 'name']),
     {'init': 'labels = {"name": "L"}'}),
    (('C07',), 'hdr:index-subscript-of-other-variable', 'select a1, labels[0], a[2]', [['1', 'n']], None, ['id', 'name'], None, ('ok+hdr', [['1', 'L', 'n']], ['id', 'col2', 'name']),
     {'init': 'labels = ["L"]'}),
    # ---- C06: a failing aggregate over list-valued cells leaves the sources untouched
    (('C06', 'C03'), 'sources:sum-of-list-cells', 'select a2, SUM(a1) group by a2', [[['x'], 'k'], [['y'], 'k']], None, None, None, ('error', 'RbqlRuntimeError'), {'sources': True}),
    (('C06',), 'sources:sum-of-list-cells:join', 'select a1, SUM(b2) join b on a1 == b1 group by a1', [['k'], ['k']], [['k', ['p']]], None, None, ('error', 'RbqlRuntimeError'), {'sources': True}),
    (('C06',), 'sources:except-short-row', 'select * except a3', [['p', 'q', 'r'], ['s']], None, None, None, ('ok', [['p', 'q'], ['s']]), {'sources': True, 'fresh': True}),
    # ---- C09: names that differ only by surrounding blanks are different columns
    (('C09',), 'name:near-duplicate-blanks', 'select a.value, a.other', [['1', '2', '3']], None, ['value', 'other', ' value'], None, ('ok', [['1', '2']])),
    # ---- C17: LIKE corners
    (('C17',), 'like:star-then-percent', "select like(a1, 'a*%')", [['a*b'], ['a*'], ['ab']], None, None, None, ('ok', [[True], [True], [False]])),
    (('C17',), 'like:percent-underscore', "select like(a1, '%_a'), like(a1, '%_%'), like(a1, '%_.csv')", [['a'], [''], ['.csv'], ['x.csv']], None, None, None,
     ('ok', [[False, True, False], [False, False, False], [False, True, False], [False, True, True]])),
    (('C17',), 'like:empty-text', "select like(a1, '%'), like(a1, ''), like(a1, '%%')", [['']], None, None, None, ('ok', [[True, True, True]])),
]


def _table(spec):
    if spec == 'SAME_ROW_TWICE':
        row = [1]
        return [row, row]
    if isinstance(spec, tuple) and spec and spec[0] == 'ALIAS':
        row = list(spec[1])
        return [row] * spec[2]
    return copy.deepcopy(spec)


def _run_case(case):
    props, key, q, A, B, na, nb, exp = case[:8]
    opts = case[8] if len(case) > 8 else {}
    rbql, eng = load_rbql()
    out, hdr = [], []
    A2 = _table(A)
    B2 = copy.deepcopy(B) if B is not None else None
    A0, B0 = copy.deepcopy(A2), copy.deepcopy(B2)
    try:
        eng.query_table(q, A2, out, [], B2, list(na) if na else None, list(nb) if nb else None, hdr, opts.get('normalize', True), opts.get('init', ''))
        got = ('ok', out, hdr)
    except Exception as e:
        got = ('error', type(e).__name__, str(e)[:200])
    if opts.get('sources') and (A2 != A0 or B2 != B0):
        return False, ('sources-modified', A2, B2)
    if opts.get('fresh') and got[0] == 'ok' and any(r is src for r in out for src in list(A2) + list(B2 or [])):
        return False, ('output-record-is-an-input-row',)
    if exp[0] == 'error':
        ok = got[0] == 'error' and got[1] == exp[1]
    elif exp[0] == 'ok':
        ok = got[0] == 'ok' and got[1] == exp[1] and all(type(x) is type(y) for r1, r2 in zip(got[1], exp[1]) for x, y in zip(r1, r2))
    else:
        ok = got[0] == 'ok' and got[1] == exp[1] and got[2] == exp[2]
    return ok, got


def _job(prop, tier, seed):
    fails = []
    n = 0
    for case in CASES:
        if prop not in case[0]:
            continue
        n += 1
        ok, got = _run_case(case)
        if not ok:
            fails.append({'replay': 'extra', 'key': 'extra:' + case[1], 'query': case[2], 'A': case[3], 'B': case[4], 'names_a': case[5], 'names_b': case[6],
                          'expected': list(case[7]), 'observed': list(got)})
    return {'job': 'targeted_cases', 'evaluations': n, 'distinct_nontrivial': n, 'exhaustive': False,
            'rule': '%d hand-written corner cases of this property (see bounded/jobs_extra.py), real query_table vs the expectation written out from the property statement' % n,
            'failures': fails, 'samples': [c[2] for c in CASES if prop in c[0]][:3]}


for _p in sorted(set(p for c in CASES for p in c[0])):
    job(_p)(_job)


@job('C16', 'C13')
def registry_reuse(prop, tier, seed):
    """two (and three) queries resolving their tables through ONE ListTableRegistry object: each must see the whole table"""
    rbql, eng = load_rbql()
    fails = []
    n = 0
    T = [['k', '1'], ['m', '2'], ['k', '3']]
    for desc, queries in (('from-twice', ['select a1, a2 from tbl', 'select a2 from tbl where a1 == "k"', 'select a1 from tbl']),
                          ('join-twice', ['select a1, b2 join tbl on a1 == b1', 'select a2, b1 join tbl on a2 == b2']),
                          ('after-runtime-error', ['select int(a1) from tbl', 'select a1 from tbl'])):
        reg = eng.ListTableRegistry([eng.ListTableInfo('tbl', [list(r) for r in T], None)])
        for qi, q in enumerate(queries):
            n += 1
            # expected: the same query with a registry of its own
            def run(registry):
                out = []
                it = eng.TableIterator([list(r) for r in T]) if ' join ' in q else None
                try:
                    eng.query(q, it, eng.TableWriter(out), [], registry)
                    return ('ok', out)
                except Exception as e:
                    return ('error', type(e).__name__)
            exp = run(eng.ListTableRegistry([eng.ListTableInfo('tbl', [list(r) for r in T], None)]))
            got = run(reg)
            if got != exp:
                fails.append({'replay': 'none', 'key': 'registry-reuse:%s:%d' % (desc, qi), 'query': q, 'expected': list(exp), 'observed': list(got)})
    return {'job': 'registry_reuse', 'evaluations': n, 'distinct_nontrivial': n, 'exhaustive': False,
            'rule': 'sequences of 2-3 queries (FROM / JOIN by name, one failing) sharing one ListTableRegistry object vs the same query with a registry of its own',
            'failures': fails, 'samples': ['select a1, a2 from tbl']}


def replay_extra(case):
    key = case['key'][len('extra:'):]
    for c in CASES:
        if c[1] == key:
            ok, got = _run_case(c)
            return {'fails': not ok, 'query': c[2], 'expected': list(c[7]), 'observed': list(got)}
    return {'fails': True, 'error': 'unknown case ' + key}


# The literal-opacity enumeration written for C08 (109-atom alphabet of keywords / metacharacters x 4 quote modes x 13 templates covering
# SELECT, WHERE, UPDATE, ORDER BY, GROUP BY, JOIN ...) also decides part of C01 / C05 / C09: the projected values, the matching records and
# the assigned fields must not depend on what a literal contains.
@job('C01', 'C05', 'C09')
def literal_opacity_shared(prop, tier, seed):
    from . import jobs_c08
    r = jobs_c08.literal_opacity('C08', 'quick', seed)       # the quick domain in both tiers: the thorough one belongs to C08
    r['job'] = 'literal_opacity'
    r['rule'] = 'shared with C08: ' + r.get('rule', '')
    return r
