"""BOUNDED jobs for C15 (broken pipes, bad bytes, file descriptors, writer typestate).

Everything here runs the REAL code of the tree on a stated finite domain and compares with what the property
statement demands:
  (1) pipe     : CSVWriter over a stream whose write() raises a broken-pipe error from the k-th call on
  (2) writer   : a recording user-supplied RBQLOutputWriter that refuses (returns False) from the k-th write on
  (3) utf8     : one invalid UTF-8 byte (or truncated sequence) at every byte position x chunk size x policy
  (4) fd       : every file opened during rbql_csv.query_csv is closed on success / parsing / runtime / IO error paths
  (5) cli      : `python -m rbql` writing into a real OS pipe whose reader is gone; bad bytes through the CLI
"""
import codecs
import errno
import gc
import io
import os
import random
import shutil
import subprocess
import sys
import tempfile
import time

import builtins

from .registry import job
from .refsem import load_rbql, REPO

MAX_FAILS = 5

# ------------------------------------------------------------------------------------------------------------------
# shared data: tables and query shapes
# ------------------------------------------------------------------------------------------------------------------

A_NAMES = ['key', 'num', 'lst']
B_NAMES = ['key', 'item']


def a_rows(n):
    return [['k%d' % (i % 3), str(i), ('u%d|v%d' % (i, i)) if i % 2 else ('w%d' % i)] for i in range(n)]


B_ROWS = [['k0', 'p|q'], ['k0', 'r'], ['k0', 's|t|u'], ['k1', 'v'], ['k2', 'w|x'], ['k2', 'y']]     # several matches per key
C_ROWS = [['k0', 'c0'], ['k1', 'c1']]                                                                # at most one match per key

# (name, query, input has header, join table)
SHAPES = [
    ('streaming', 'select a1, a2', False, None),
    ('streaming-star', 'select *', False, None),
    ('streaming-where', 'select a2, a1 where int(a2) % 2 == 0', False, None),
    ('except', 'select * except a2', False, None),
    ('top', 'select top 4 a2, a1', False, None),
    ('top-distinct', 'select top 2 distinct a1', False, None),
    ('top-distinct-sorted', 'select top 2 distinct a1 order by a1 desc', False, None),
    ('top-distinct-count', 'select top 2 distinct count a1', False, None),
    ('sorted', 'select a1, a2 order by int(a2) desc', False, None),
    ('aggregated', 'select a1, count(*), max(int(a2)) group by a1', False, None),
    ('aggregated-1', 'select count(*), sum(int(a2))', False, None),
    ('distinct', 'select distinct a1', False, None),
    ('distinct-count', 'select distinct count a1', False, None),
    ('unnest', 'select a2, unnest(a3.split("|"))', False, None),
    ('unnest-sorted', 'select a2, unnest(a3.split("|")) order by int(a2) desc', False, None),
    ('update', 'update set a2 = "z" where a1 == "k1"', False, None),
    ('header', 'select a.key, a.num', True, None),
    ('header-sorted', 'select a.num, a.key order by a.key', True, None),
    ('header-aggregated', 'select a.key, count(*) group by a.key', True, None),
    ('header-unnest', 'select a.num, unnest(a.lst.split("|"))', True, None),
    ('header-update', 'update set a.num = "z"', True, None),
    ('join-multi', 'select a2, b2 join B on a1 == b1', False, 'B'),
    ('join-left', 'select a2, b2 left join C on a1 == b1', False, 'C'),
    ('join-unnest', 'select a2, unnest(b2.split("|")) join B on a1 == b1', False, 'B'),
    ('join-distinct', 'select distinct a1, b2 join B on a1 == b1', False, 'B'),
    ('join-sorted', 'select a2, b2 join B on a1 == b1 order by b2 desc', False, 'B'),
    ('join-top', 'select top 5 a2, b2 join B on a1 == b1', False, 'B'),
    ('join-header', 'select a.num, b.item join B on a.key == b.key', True, 'B'),
    ('update-join', 'update set a3 = b2 join C on a1 == b1', False, 'C'),
]
# shapes only used with the user-supplied writer (the CSV writer rejects the 2-column record under a 1-column header: known finding F3 of C07)
WRITER_ONLY_SHAPES = [
    ('header-distinct-count', 'select distinct count a.key', True, None),
]
SHAPE_BY_NAME = dict((s[0], s) for s in SHAPES + WRITER_ONLY_SHAPES)
# shapes that must consume the whole input before the first record can be written: "stops promptly" cannot bound their input pulls
BUFFERING_SHAPES = {'top-distinct-sorted', 'top-distinct-count', 'sorted', 'aggregated', 'aggregated-1', 'distinct-count', 'unnest-sorted', 'header-sorted', 'header-aggregated', 'join-sorted', 'header-distinct-count'}

FLAVORS = ['EPIPE', 'ESHUTDOWN', 'bare']


def make_pipe_error(flavor):
    """every one of these is an instance of BrokenPipeError, i.e. 'a broken-pipe error'"""
    if flavor == 'EPIPE':
        e = OSError(errno.EPIPE, os.strerror(errno.EPIPE))
    elif flavor == 'ESHUTDOWN':
        e = OSError(errno.ESHUTDOWN, os.strerror(errno.ESHUTDOWN))
    else:
        e = BrokenPipeError('consumer went away')
    assert isinstance(e, BrokenPipeError)
    return e


class FaultyStream(object):
    """text stream; write() number k (0-based) and every later one raise a broken-pipe error.
    mode: 'clean'    the failing write emits nothing
          'partial'  the first failing write emits the first half of its data, then raises
          'flush'    like clean, and flush() raises too once the pipe is broken
          'buffered' no write ever fails (data sits in a buffer), the flush raises (k is ignored)"""

    def __init__(self, k, flavor, mode='clean'):
        self.k = k if mode != 'buffered' else 10 ** 9
        self.flavor = flavor
        self.mode = mode
        self.chunks = []
        self.n_calls = 0
        self.first_fail = None
        self.attempts_after = 0
        self.on_fail = None
        self.flushes = 0

    def write(self, data):
        idx = self.n_calls
        self.n_calls += 1
        if idx >= self.k:
            if self.first_fail is None:
                self.first_fail = idx
                if self.on_fail is not None:
                    self.on_fail()
                if self.mode == 'partial' and len(data) > 1:
                    self.chunks.append(data[:len(data) // 2])
            else:
                self.attempts_after += 1
            raise make_pipe_error(self.flavor)
        self.chunks.append(data)
        return len(data)

    def flush(self):
        self.flushes += 1
        if self.mode == 'buffered' or (self.mode == 'flush' and self.first_fail is not None):
            raise make_pipe_error(self.flavor)

    def close(self):
        pass

    def getvalue(self):
        return ''.join(self.chunks)


class _StdoutGuard(object):
    """the CSV writer closes sys.stdout when the final flush hits a broken pipe; keep the harness' stdout out of reach"""

    def __enter__(self):
        self.saved = (sys.stdout, sys.stderr)
        sys.stdout = io.StringIO()
        return self

    def __exit__(self, *a):
        sys.stdout, sys.stderr = self.saved
        return False


_CLS_CACHE = {}


def _classes(eng, rbql_csv):
    key = (id(eng), id(rbql_csv))
    if key in _CLS_CACHE:
        return _CLS_CACHE[key]

    class CountingTableIterator(eng.TableIterator):
        pulls = 0

        def get_record(self):
            self.pulls += 1
            return eng.TableIterator.get_record(self)

    class CountingCSVIterator(rbql_csv.CSVRecordIterator):
        pulls = 0

        def get_record(self):
            self.pulls += 1
            return rbql_csv.CSVRecordIterator.get_record(self)

    class ProbeCSVWriter(rbql_csv.CSVWriter):
        calls_after_header = 0

        def set_header(self, header):
            rbql_csv.CSVWriter.set_header(self, header)
            self.calls_after_header = self.probe_stream.n_calls

    class RecWriter(eng.RBQLOutputWriter):
        """user-supplied writer: accepts `capacity` records, then reports 'consumer gone' by returning False"""

        def __init__(self, capacity):
            self.capacity = capacity
            self.events = []
            self.accepted = []
            self.on_refuse = None

        def set_header(self, header):
            self.events.append(['H', None if header is None else list(header)])

        def write(self, fields):
            ok = len(self.accepted) < self.capacity and not any(e[0] == 'W' and not e[1] for e in self.events)
            self.events.append(['W', ok])
            if ok:
                self.accepted.append(list(fields))
            elif self.on_refuse is not None:
                self.on_refuse()
                self.on_refuse = None
            return ok

        def finish(self):
            self.events.append(['F'])

    res = (CountingTableIterator, CountingCSVIterator, ProbeCSVWriter, RecWriter)
    _CLS_CACHE.clear()
    _CLS_CACHE[key] = res
    return res


def _csv_text(rows):
    return ''.join(','.join(r) + '\n' for r in rows)


def _make_input(eng, rbql_csv, shape, input_kind, rows):
    CountingTableIterator, CountingCSVIterator, _, _ = _classes(eng, rbql_csv)
    name, query, header, join = shape
    if input_kind == 'table':
        it = CountingTableIterator([r[:] for r in rows], list(A_NAMES) if header else None)
    else:
        text = _csv_text(([A_NAMES] if header else []) + rows)
        it = CountingCSVIterator(io.StringIO(text), None, ',', 'quoted', has_header=header, chunk_size=7)
    registry = None
    if join is not None:
        jrows = B_ROWS if join == 'B' else C_ROWS
        registry = eng.ListTableRegistry([eng.ListTableInfo(join, [r[:] for r in jrows], list(B_NAMES) if header else None)])
    return it, registry


# ------------------------------------------------------------------------------------------------------------------
# (1) broken pipe under the CSV writer
# ------------------------------------------------------------------------------------------------------------------

def _run_pipe(eng, rbql_csv, case):
    """case: shape, input, nrows, k, flavor, mode, policy, colorize.  Returns the observation dict."""
    _, _, ProbeCSVWriter, _ = _classes(eng, rbql_csv)
    shape = SHAPE_BY_NAME[case['shape']]
    rows = a_rows(case['nrows'])
    it, registry = _make_input(eng, rbql_csv, shape, case['input'], rows)
    stream = FaultyStream(case['k'], case['flavor'], case['mode'])
    writer = ProbeCSVWriter.__new__(ProbeCSVWriter)
    writer.probe_stream = stream
    ProbeCSVWriter.__init__(writer, stream, False, None, ',', case.get('policy', 'quoted'), colorize_output=bool(case.get('colorize')))
    obs = {'pulls_at_fail': None}

    def on_fail():
        obs['pulls_at_fail'] = it.pulls
    stream.on_fail = on_fail
    exc = None
    warnings = []
    with _StdoutGuard():
        try:
            eng.query(shape[1], it, writer, warnings, registry)
        except BaseException as e:        # noqa
            if isinstance(e, (KeyboardInterrupt, SystemExit)):
                raise
            exc = '%s: %s' % (type(e).__name__, str(e)[:200])
    obs.update({'exception': exc, 'emitted': stream.getvalue(), 'n_calls': stream.n_calls, 'first_fail': stream.first_fail,
                'attempts_after': stream.attempts_after, 'pulls_end': it.pulls, 'calls_after_header': writer.calls_after_header,
                'flushes': stream.flushes})
    return obs


def _judge_pipe(case, obs, full):
    """-> list of (what, expected, observed) violations of the statement's pipe clause"""
    bad = []
    if obs['exception'] is not None:
        bad.append(('returns', 'query returns without error', obs['exception']))
    if not full.startswith(obs['emitted']):
        bad.append(('prefix', 'emitted text is a prefix of the fault-free output %r' % full[:80], obs['emitted'][:120]))
    if case['mode'] == 'buffered':
        if obs['emitted'] != full:
            bad.append(('prefix', 'all writes succeeded, so the whole output was handed to the stream', obs['emitted'][:120]))
        return bad
    if obs['first_fail'] is None:
        if obs['emitted'] != full and obs['exception'] is None:
            bad.append(('full', 'no fault struck: full output', obs['emitted'][:120]))
        return bad
    # stops promptly: a failed RECORD write is reported to the engine (write() -> False), so nothing may be attempted after it;
    # a failed HEADER write cannot be reported (set_header has no result), so one more attempt is tolerated.
    allowed = 1 if obs['first_fail'] < obs['calls_after_header'] else 0
    if obs['attempts_after'] > allowed:
        bad.append(('stops', '<= %d further stream writes after the broken one' % allowed, '%d further write attempts' % obs['attempts_after']))
    if case['shape'] not in BUFFERING_SHAPES and obs['pulls_at_fail'] is not None and obs['pulls_end'] - obs['pulls_at_fail'] > 1:
        bad.append(('stops', '<= 1 further get_record after the broken write', '%d further get_record calls' % (obs['pulls_end'] - obs['pulls_at_fail'])))
    return bad


def _pipe_full(eng, rbql_csv, case):
    c = dict(case, k=10 ** 9, mode='clean')
    obs = _run_pipe(eng, rbql_csv, c)
    return obs


def replay_c15_pipe(case):
    rbql, eng = load_rbql()
    from rbql import rbql_csv
    full = _pipe_full(eng, rbql_csv, case)
    if full['exception'] is not None:
        return {'fails': True, 'expected': 'fault-free run succeeds', 'observed': full['exception']}
    obs = _run_pipe(eng, rbql_csv, case)
    bad = _judge_pipe(case, obs, full['emitted'])
    return {'fails': bool(bad), 'expected': [b[1] for b in bad] or 'no exception; prefix of full output; prompt stop', 'observed': [b[2] for b in bad] or 'ok',
            'case': dict((k, v) for k, v in case.items() if k not in ('expected', 'observed'))}


@job('C15')
def broken_pipe_csv_writer(prop, tier, seed):
    rbql, eng = load_rbql()
    from rbql import rbql_csv
    rnd = random.Random(seed)
    thorough = tier != 'quick'
    fails, n, nontrivial = [], 0, 0
    samples = []
    configs = []
    for shape in SHAPES:
        for input_kind in ('table', 'csv'):
            for nrows in ((7, 19) if thorough else (7,)):
                configs.append({'shape': shape[0], 'input': input_kind, 'nrows': nrows, 'policy': 'quoted', 'colorize': False})
    # writer variants (3 stream writes per record when colorized; other output policies)
    for shape_name in ('streaming', 'sorted', 'header', 'join-multi', 'aggregated', 'update'):
        for policy, colorize in (('simple', False), ('simple', True), ('quoted_rfc', False), ('quoted', True)):
            configs.append({'shape': shape_name, 'input': 'table', 'nrows': 6, 'policy': policy, 'colorize': colorize})
    configs.append({'shape': 'distinct', 'input': 'table', 'nrows': 5, 'policy': 'monocolumn', 'colorize': False})
    for ci, cfg in enumerate(configs):
        if len(fails) >= MAX_FAILS:
            break
        full = _pipe_full(eng, rbql_csv, dict(cfg, flavor='EPIPE'))
        n += 1
        if full['exception'] is not None or full['n_calls'] < 2:
            fails.append(dict(cfg, replay='c15_pipe', key='pipe:%s:fault-free' % cfg['shape'], k=10 ** 9, flavor='EPIPE', mode='clean',
                              expected='fault-free run succeeds with output', observed=full['exception'] or full['emitted']))
            continue
        W = full['n_calls']
        for k in range(W + 1):
            if thorough:
                combos = [(f, m) for f in FLAVORS for m in ('clean', 'partial', 'flush')]
            else:
                combos = [(f, 'clean') for f in FLAVORS] + [(FLAVORS[(k + ci) % 3], 'partial'), (FLAVORS[(k + ci + 1) % 3], 'flush')]
            for flavor, mode in combos:
                case = dict(cfg, k=k, flavor=flavor, mode=mode)
                obs = _run_pipe(eng, rbql_csv, case)
                n += 1
                if obs['first_fail'] is not None:
                    nontrivial += 1
                bad = _judge_pipe(case, obs, full['emitted'])
                if bad:
                    what = bad[0][0]
                    where = 'header' if (obs['first_fail'] is not None and obs['first_fail'] < obs['calls_after_header']) else 'record'
                    key = 'pipe:%s:%s:%s:%s' % (cfg['shape'], what, flavor if what == 'returns' else 'any', where)
                    if not any(f['key'] == key for f in fails):
                        fails.append(dict(case, replay='c15_pipe', key=key, expected=bad[0][1], observed=bad[0][2], all_violations=[list(b) for b in bad]))
                    break
            if len(fails) >= MAX_FAILS or any(f['key'].startswith('pipe:%s:' % cfg['shape']) for f in fails):
                break
        # the final flush is where a buffered pipe breaks
        for flavor in FLAVORS:
            case = dict(cfg, k=0, flavor=flavor, mode='buffered')
            obs = _run_pipe(eng, rbql_csv, case)
            n += 1
            nontrivial += 1
            bad = _judge_pipe(case, obs, full['emitted'])
            if bad and len(fails) < MAX_FAILS:
                key = 'pipe:%s:flush:%s' % (cfg['shape'], flavor)
                if not any(f['key'].startswith('pipe:%s:' % cfg['shape']) for f in fails):
                    fails.append(dict(case, replay='c15_pipe', key=key, expected=bad[0][1], observed=bad[0][2]))
        if ci < 3:
            samples.append({'shape': cfg['shape'], 'writes_in_full_run': W})
    return {'job': 'broken_pipe_csv_writer', 'evaluations': n, 'distinct_nontrivial': nontrivial, 'exhaustive': False,
            'rule': 'every stream-write index k in 0..W (W = #writes of the fault-free run) x %d query shapes (streaming, where, except, top, sorted, aggregated, distinct, distinct-count, unnest, update, header variants, joins with several matches per key, update-join) x {TableIterator, CSVRecordIterator} input of %s records x BrokenPipeError flavours {errno EPIPE, errno ESHUTDOWN, no errno} x failing-write modes {nothing emitted, half emitted, flush also fails}%s + final-flush failure; plus output policies simple/quoted_rfc/monocolumn and colorized output: no exception, emitted text is a prefix of the fault-free output, no stream write attempted after a failed record write (1 tolerated after a failed header write), <= 1 further get_record'
                    % (len(SHAPES), '7 and 19' if thorough else '7', '' if thorough else ' (the last two modes with one flavour each, rotated over k, in the quick tier)'),
            'failures': fails[:MAX_FAILS], 'samples': samples,
            'assumptions': ['a broken-pipe error is any instance of BrokenPipeError (OSError with errno EPIPE or ESHUTDOWN, or raised without errno by a Python-level stream)',
                            'sys.stdout is replaced by a dummy during each run because the writer closes sys.stdout when the final flush breaks']}


# ------------------------------------------------------------------------------------------------------------------
# (2) user-supplied writer typestate
# ------------------------------------------------------------------------------------------------------------------

def _run_writer(eng, rbql_csv, case):
    _, _, _, RecWriter = _classes(eng, rbql_csv)
    shape = SHAPE_BY_NAME[case['shape']]
    rows = a_rows(case['nrows'])
    if case.get('poison') is not None:
        rows[case['poison']][1] = 'oops'
    it, registry = _make_input(eng, rbql_csv, shape, case['input'], rows)
    w = RecWriter(case['capacity'])
    obs = {'pulls_at_refuse': None}

    def on_refuse():
        obs['pulls_at_refuse'] = it.pulls
    w.on_refuse = on_refuse
    exc = None
    try:
        eng.query(shape[1], it, w, [], registry)
    except BaseException as e:        # noqa
        if isinstance(e, (KeyboardInterrupt, SystemExit)):
            raise
        exc = '%s: %s' % (type(e).__name__, str(e)[:200])
    obs.update({'exception': exc, 'events': w.events, 'accepted': w.accepted, 'pulls_end': it.pulls})
    return obs


def _judge_writer(case, obs, full_records):
    bad = []
    ev = obs['events']
    kinds = [e[0] for e in ev]
    if kinds.count('H') > 1:
        bad.append(('set_header', 'set_header at most once', 'set_header called %d times' % kinds.count('H')))
    if 'H' in kinds and 'W' in kinds[:kinds.index('H')]:
        bad.append(('set_header', 'set_header before any write', 'trace %s' % ''.join(kinds)[:60]))
    refused = [i for i, e in enumerate(ev) if e[0] == 'W' and not e[1]]
    if refused:
        later = [e for e in ev[refused[0] + 1:] if e[0] == 'W']
        if later:
            bad.append(('write-after-false', 'no write after one returned False', '%d more write() calls after the refusal; trace %s' % (len(later), ''.join(kinds)[:80])))
    if case.get('poison') is None and obs['exception'] is not None:
        bad.append(('returns', 'query returns without error when the consumer goes away', obs['exception']))
    if obs['exception'] is None:
        if kinds.count('F') != 1:
            bad.append(('finish', 'finish exactly once after a successful run', 'finish called %d times' % kinds.count('F')))
        elif kinds[-1] != 'F':
            bad.append(('finish', 'finish is the last call of a successful run', 'trace %s' % ''.join(kinds)[:80]))
        if full_records is not None and obs['accepted'] != full_records[:case['capacity']]:
            bad.append(('prefix', 'accepted records are the first %d records of the full output' % case['capacity'], obs['accepted'][:6]))
    if case['shape'] not in BUFFERING_SHAPES and obs['pulls_at_refuse'] is not None and obs['pulls_end'] - obs['pulls_at_refuse'] > 1:
        bad.append(('stops', '<= 1 further get_record after the refused write', '%d further get_record calls' % (obs['pulls_end'] - obs['pulls_at_refuse'])))
    return bad


def replay_c15_writer(case):
    rbql, eng = load_rbql()
    from rbql import rbql_csv
    full = None
    if case.get('poison') is None:
        fobs = _run_writer(eng, rbql_csv, dict(case, capacity=10 ** 9))
        full = fobs['accepted']
    obs = _run_writer(eng, rbql_csv, case)
    bad = _judge_writer(case, obs, full)
    return {'fails': bool(bad), 'expected': [b[1] for b in bad] or 'typestate respected', 'observed': [b[2] for b in bad] or 'ok',
            'trace': ''.join(e[0] if e[0] != 'W' else ('w' if e[1] else 'X') for e in obs['events'])[:200]}


@job('C15')
def user_writer_typestate(prop, tier, seed):
    rbql, eng = load_rbql()
    from rbql import rbql_csv
    thorough = tier != 'quick'
    fails, n, nontrivial = [], 0, 0
    samples = []
    nrows = 12 if thorough else 7
    for shape in SHAPES + WRITER_ONLY_SHAPES:
        for input_kind in ('table', 'csv'):
            if len(fails) >= MAX_FAILS:
                break
            base = {'shape': shape[0], 'input': input_kind, 'nrows': nrows, 'poison': None}
            fobs = _run_writer(eng, rbql_csv, dict(base, capacity=10 ** 9))
            n += 1
            bad = _judge_writer(dict(base, capacity=10 ** 9), fobs, None)
            if not bad and len(fobs['accepted']) < 1:
                bad = [('full', 'the shape produces output', 'no record')]
            if bad:
                key = 'writer:%s:%s:unlimited' % (shape[0], bad[0][0])
                if not any(f['key'] == key for f in fails):
                    fails.append(dict(base, capacity=10 ** 9, replay='c15_writer', key=key, expected=bad[0][1], observed=bad[0][2]))
                continue
            full = fobs['accepted']
            if shape[2] and not any(e[0] == 'H' for e in fobs['events']):
                pass    # "at most once": a missing header is C07's business, not demanded here
            for cap in range(len(full) + 1):
                case = dict(base, capacity=cap)
                obs = _run_writer(eng, rbql_csv, case)
                n += 1
                nontrivial += 1 if cap < len(full) else 0
                bad = _judge_writer(case, obs, full)
                if bad:
                    key = 'writer:%s:%s' % (shape[0], bad[0][0])
                    if not any(f['key'] == key for f in fails):
                        fails.append(dict(case, replay='c15_writer', key=key, expected=bad[0][1], observed=bad[0][2],
                                          trace=''.join(e[0] if e[0] != 'W' else ('w' if e[1] else 'X') for e in obs['events'])[:200]))
                    break
            if len(samples) < 2:
                samples.append({'shape': shape[0], 'records_in_full_output': len(full)})
    # error paths: a poisoned record at position j, consumer going away at k: the typestate must still hold
    for shape_name in ('streaming-where', 'sorted', 'aggregated', 'aggregated-1'):
        for j in range(nrows):
            for cap in range(0, nrows + 1, 1 if thorough else 2):
                if len(fails) >= MAX_FAILS:
                    break
                case = {'shape': shape_name, 'input': 'table', 'nrows': nrows, 'poison': j, 'capacity': cap}
                obs = _run_writer(eng, rbql_csv, case)
                n += 1
                nontrivial += 1 if obs['exception'] is not None else 0
                bad = _judge_writer(case, obs, None)
                if bad:
                    key = 'writer:%s:%s:poisoned' % (shape_name, bad[0][0])
                    if not any(f['key'] == key for f in fails):
                        fails.append(dict(case, replay='c15_writer', key=key, expected=bad[0][1], observed=bad[0][2]))
    return {'job': 'user_writer_typestate', 'evaluations': n, 'distinct_nontrivial': nontrivial, 'exhaustive': False,
            'rule': 'recording RBQLOutputWriter refusing (write() -> False) from index k, every k in 0..#records of the full output, x %d query shapes (incl. joins with several matches per key, unnest, distinct, top, sorted, aggregated, update, header) x {TableIterator, CSVRecordIterator} input of %d records; plus a poisoned record at every position j x refusal index k on 4 shapes: set_header <= 1 and before any write, no write after a False, finish exactly once and last when the query returns, accepted records = prefix of the full output, <= 1 further get_record after the refusal'
                    % (len(SHAPES) + len(WRITER_ONLY_SHAPES), nrows),
            'failures': fails[:MAX_FAILS], 'samples': samples, 'assumptions': []}


# ------------------------------------------------------------------------------------------------------------------
# (3) invalid UTF-8
# ------------------------------------------------------------------------------------------------------------------

UTF8_FILES = [
    # (name, text, delim, policy)
    ('quoted', 'a1,"b,1"\nc2,d2\r\néx,中\n"q""r",\U0001f600z\n', ',', 'quoted'),
    ('simple-tab', 'a1\tb1\né\t中2\nlast\t\U0001f600', '\t', 'simple'),
    ('rfc', 'a1,"multi\nline é"\nc2,"d""2"\n中,z\n', ',', 'quoted_rfc'),
    ('whitespace', 'a1   b1\n é  c2 \nx 中\n', ' ', 'whitespace'),
    ('monocolumn', 'line one\né two\r\nthree 中\n', '', 'monocolumn'),
]
CHUNK_SIZES = [1, 2, 3, 5, 7, 64]


def _is_invalid_utf8(data):
    try:
        data.decode('utf-8')
        return False
    except UnicodeDecodeError:
        return True


def _utf8_mutations(data, text):
    """(kind, position, mutated bytes) for every byte position; only mutations that really are invalid UTF-8"""
    out = []
    for p in range(len(data) + 1):
        out.append(('insert-ff', p, data[:p] + b'\xff' + data[p:]))
        out.append(('insert-80', p, data[:p] + b'\x80' + data[p:]))
        if p < len(data):
            out.append(('replace-ff', p, data[:p] + b'\xff' + data[p + 1:]))
            out.append(('replace-c0', p, data[:p] + b'\xc0' + data[p + 1:]))
    # truncated multi-byte sequences: drop the last 1..n-1 bytes of every non-ASCII character
    pos = 0
    for ch in text:
        enc = ch.encode('utf-8')
        if len(enc) > 1:
            for drop in range(1, len(enc)):
                out.append(('truncate-%d-of-%d' % (drop, len(enc)), pos, data[:pos + len(enc) - drop] + data[pos + len(enc):]))
        pos += len(enc)
    # the file cut in the middle of its last character
    return [(k, p, d) for k, p, d in out if _is_invalid_utf8(d)]


class TrickleBytesIO(io.BytesIO):
    """a byte source that hands out at most m bytes per read (a slow pipe): the decoder meets the bad byte late, not in its first block"""

    def __init__(self, data, m):
        io.BytesIO.__init__(self, data)
        self.m = m

    def read1(self, n=-1):
        return io.BytesIO.read1(self, self.m if (n is None or n < 0 or n > self.m) else n)

    def read(self, n=-1):
        return io.BytesIO.read(self, self.m if (n is None or n < 0 or n > self.m) else n)


def _terminators(prefix):
    return prefix.count(b'\n') + prefix.count(b'\r') - prefix.count(b'\r\n')


def _read_all(eng, rbql_csv, data, delim, policy, chunk, has_header=False, trickle=None):
    """-> (outcome, records read before the outcome)"""
    records = []
    try:
        src = io.BytesIO(data) if not trickle else TrickleBytesIO(data, trickle)
        it = rbql_csv.CSVRecordIterator(src, 'utf-8', delim, policy, has_header=has_header, chunk_size=chunk)
        while True:
            r = it.get_record()
            if r is None:
                break
            records.append(r)
        return 'no error', records
    except eng.RbqlIOHandlingError:
        return 'RbqlIOHandlingError', records
    except Exception as e:
        return '%s: %s' % (type(e).__name__, str(e)[:120]), records


def replay_c15_utf8(case):
    rbql, eng = load_rbql()
    from rbql import rbql_csv
    data = bytes.fromhex(case['data_hex'])
    if case.get('via') == 'query_csv':
        outcome = _utf8_query_csv(eng, rbql_csv, data, bytes.fromhex(case['join_hex']) if case.get('join_hex') else None, case['query'], case['delim'], case['policy'], case.get('with_headers', False))
    else:
        outcome, records = _read_all(eng, rbql_csv, data, case['delim'], case['policy'], case['chunk'], case.get('has_header', False), case.get('trickle'))
        if outcome == 'RbqlIOHandlingError' and case.get('clean_hex'):
            g = _garbage(eng, rbql_csv, bytes.fromhex(case['clean_hex']), case['position'], records, case['delim'], case['policy'], case.get('has_header', False))
            if g:
                return {'fails': True, 'expected': 'records delivered before the error are the true first records', 'observed': g}
    return {'fails': outcome != 'RbqlIOHandlingError', 'expected': 'RbqlIOHandlingError', 'observed': outcome}


def _garbage(eng, rbql_csv, clean_data, p, records, delim, policy, has_header, clean_records=None):
    """records delivered before the error must be the first records of the clean file, all ending before byte p"""
    if clean_records is None:
        _, clean_records = _read_all(eng, rbql_csv, clean_data, delim, policy, 64, has_header)
    limit = _terminators(clean_data[:p]) - (1 if has_header else 0)
    if records != clean_records[:len(records)]:
        return 'delivered %r, the file starts with %r' % (records[-2:], clean_records[:len(records)][-2:])
    if len(records) > max(limit, 0):
        return '%d records delivered although only %d line ends precede the bad byte' % (len(records), limit)
    return None


def _utf8_query_csv(eng, rbql_csv, main, join, query, delim, policy, with_headers=False):
    tmp = tempfile.mkdtemp(prefix='rbql_verif_c15u_')
    try:
        ip, jp, op = os.path.join(tmp, 'in.csv'), os.path.join(tmp, 'jt.csv'), os.path.join(tmp, 'out.csv')
        with open(ip, 'wb') as f:
            f.write(main)
        if join is not None:
            with open(jp, 'wb') as f:
                f.write(join)
        try:
            rbql_csv.query_csv(query, ip, delim, policy, op, delim, policy, 'utf-8', [], with_headers)
            return 'no error'
        except eng.RbqlIOHandlingError:
            return 'RbqlIOHandlingError'
        except Exception as e:
            return '%s: %s' % (type(e).__name__, str(e)[:120])
    finally:
        shutil.rmtree(tmp, ignore_errors=True)


@job('C15')
def invalid_utf8_everywhere(prop, tier, seed):
    rbql, eng = load_rbql()
    from rbql import rbql_csv
    thorough = tier != 'quick'
    rnd = random.Random(seed)
    fails, n = [], 0
    seen_keys = set()

    def report(key, case, outcome):
        if key in seen_keys or len(fails) >= MAX_FAILS:
            return
        seen_keys.add(key)
        fails.append(dict(case, replay='c15_utf8', key=key, expected='RbqlIOHandlingError', observed=outcome))
    n_mut = 0
    for name, text, delim, policy in UTF8_FILES:
        data = text.encode('utf-8')
        clean_outcome, clean_records = _read_all(eng, rbql_csv, data, delim, policy, 5)
        n += 1
        if clean_outcome != 'no error':
            report('utf8:%s:clean' % name, {'data_hex': data.hex(), 'delim': delim, 'policy': policy, 'chunk': 5}, 'clean file: ' + clean_outcome)
            continue
        muts = _utf8_mutations(data, text)
        n_mut += len(muts)
        clean_by_header = dict((h, _read_all(eng, rbql_csv, data, delim, policy, 64, h)[1]) for h in (False, True))
        for kind, p, d in muts:
            for chunk in CHUNK_SIZES:
                for trickle in (None, 1, 3):
                    for has_header in ((False, True) if (thorough or (p + chunk) % 4 == 0) else (False,)):
                        outcome, records = _read_all(eng, rbql_csv, d, delim, policy, chunk, has_header, trickle)
                        n += 1
                        case = {'data_hex': d.hex(), 'clean_hex': data.hex(), 'delim': delim, 'policy': policy, 'chunk': chunk, 'trickle': trickle, 'has_header': has_header, 'kind': kind, 'position': p}
                        if outcome != 'RbqlIOHandlingError':
                            report('utf8:iter:%s:%s' % (policy, kind.split('-')[0]), case, outcome)
                        else:
                            g = _garbage(eng, rbql_csv, data, p, records, delim, policy, has_header, clean_by_header[has_header])
                            if g:
                                if 'utf8:garbage:%s' % policy not in seen_keys and len(fails) < MAX_FAILS:
                                    seen_keys.add('utf8:garbage:%s' % policy)
                                    fails.append(dict(case, replay='c15_utf8', key='utf8:garbage:%s' % policy, expected='records delivered before the error are the true first records', observed=g))
        # the whole front-end: bad byte in the main table, and in a join table
        if policy in ('quoted', 'simple', 'quoted_rfc'):
            step = 1 if thorough else 3
            for kind, p, d in muts[rnd.randrange(step)::step]:
                outcome = _utf8_query_csv(eng, rbql_csv, d, None, 'select a1, NR', delim, policy)
                n += 1
                if outcome != 'RbqlIOHandlingError':
                    report('utf8:query_csv:main:%s' % policy, {'via': 'query_csv', 'data_hex': d.hex(), 'join_hex': None, 'query': 'select a1, NR', 'delim': delim, 'policy': policy, 'kind': kind, 'position': p}, outcome)
                q = 'select a1, b1 left join jt.csv on a1 == b1'
                outcome = _utf8_query_csv(eng, rbql_csv, data, d, q, delim, policy)
                n += 1
                if outcome != 'RbqlIOHandlingError':
                    report('utf8:query_csv:join:%s' % policy, {'via': 'query_csv', 'data_hex': data.hex(), 'join_hex': d.hex(), 'query': q, 'delim': delim, 'policy': policy, 'kind': kind, 'position': p}, outcome)
    # a file larger than the decoder's block: the error strikes after records were already delivered; those must be right (no garbage)
    lines = ['r%d,é%d,"q,%d"' % (i, i, i) for i in range(2600)]
    big = ('\n'.join(lines) + '\n').encode('utf-8')
    offsets = []
    o = 0
    for ln in lines:
        offsets.append(o)
        o += len(ln.encode('utf-8')) + 1
    clean = [['r%d' % i, 'é%d' % i, 'q,%d' % i] for i in range(2600)]
    n_big = 0
    for t in range(40 if thorough else 10):
        p = rnd.randrange(len(big) + 1) if t else len(big)
        d = big[:p] + b'\xff' + big[p:]
        line_no = max(i for i, off in enumerate(offsets) if off <= p) if p < len(big) else len(lines)
        for chunk in ((1, 7, 64, 1024, 5000) if thorough else (7, 1024)):
            if chunk == 1 and t % 8:
                continue
            outcome, records = _read_all(eng, rbql_csv, d, ',', 'quoted', chunk)
            n += 1
            n_big += 1
            case = {'data_hex': None, 'big_file_position': p, 'delim': ',', 'policy': 'quoted', 'chunk': chunk}
            if outcome != 'RbqlIOHandlingError':
                report('utf8:big:outcome', dict(case, replay_note='big file: 2600 lines r<i>,e-acute<i>,"q,<i>" with 0xff inserted at big_file_position'), outcome)
            elif records != clean[:len(records)] or len(records) > line_no:
                report('utf8:big:garbage', case, 'records delivered before the error are not the first records of the file (got %d, bad byte in line %d): %r' % (len(records), line_no, records[-1:]))
    for f in fails:
        if f.get('data_hex') is None:
            f['replay'] = 'none'
    return {'job': 'invalid_utf8_everywhere', 'evaluations': n, 'distinct_nontrivial': n_mut + n_big, 'exhaustive': False,
            'rule': '5 small CSV files (quoted, tab/simple, quoted_rfc multi-line, whitespace, monocolumn; 1-4 byte characters) x every byte position p x {insert 0xff, insert lone 0x80, replace by 0xff, replace by 0xc0, truncate each multi-byte character} x chunk sizes {1,2,3,5,7,64} x byte source delivering {all, 1, 3} bytes per read%s through CSVRecordIterator(encoding utf-8): RbqlIOHandlingError, never a raw exception nor a silent success, and the records delivered before it are the true first records of the file; the same mutations (%s) in the main and in the JOIN table through query_csv; a 2600-line file with 0xff at %d seeded positions: RbqlIOHandlingError and the records delivered before it are the true first records'
                    % (' x has_header' if thorough else ' (has_header on a quarter of them)', 'all' if thorough else 'every 3rd', 40 if thorough else 10),
            'failures': fails[:MAX_FAILS], 'samples': [UTF8_FILES[0][1]], 'assumptions': []}


# ------------------------------------------------------------------------------------------------------------------
# (4) file descriptors
# ------------------------------------------------------------------------------------------------------------------

class _OpenTracker(object):
    """records every file object created through open()/io.open()/codecs.open() while active"""

    def __init__(self):
        self.opened = []

    def __enter__(self):
        self.orig = (builtins.open, io.open)
        orig_open = builtins.open
        opened = self.opened

        def tracking_open(file, *args, **kwargs):
            f = orig_open(file, *args, **kwargs)
            opened.append((str(file), f))
            return f
        builtins.open = tracking_open
        io.open = tracking_open
        return self

    def __exit__(self, *a):
        builtins.open, io.open = self.orig
        return False


def _fd_table():
    res = {}
    try:
        names = os.listdir('/proc/self/fd')
    except OSError:
        return None
    for nm in names:
        try:
            res[nm] = os.readlink('/proc/self/fd/' + nm)
        except OSError:
            pass        # the descriptor of the listing itself
    return res


MAIN_ROWS = [b'1,10,x', b'2,20,y', b'3,30,z', b'4,40,w']
JOIN_BYTES = b'1,red\n2,green\n2,lime\n3,blue\n'
JOIN_UNIQ = b'1,red\n2,green\n3,blue\n4,pink\n'


def _main_bytes(poison_at=None, poison=b'oops'):
    rows = list(MAIN_ROWS)
    if poison_at is not None:
        if poison == b'short':
            rows[poison_at] = b'%d' % (poison_at + 1)
        else:
            rows[poison_at] = b'%d,oops,p' % (poison_at + 1)
    return b'\n'.join(rows) + b'\n'


def _fd_scenarios(thorough):
    """list of dicts: name, query, main(bytes|None=missing file), join(bytes|None), policy, out_policy, encoding, with_headers, extras"""
    S = []

    def add(name, query, main=_main_bytes(), join=None, policy='quoted', out_policy=None, encoding='utf-8', with_headers=False, delim=',', **extra):
        S.append(dict(name=name, query=query, main=main, join=join, policy=policy, out_policy=out_policy or policy, encoding=encoding, with_headers=with_headers, delim=delim, **extra))
    J = ' join jt.csv on a1 == b1'
    # success paths
    add('ok:select', 'select a1, a2')
    add('ok:sorted', 'select a1 order by int(a2) desc')
    add('ok:aggregated', 'select a3, count(*) group by a3')
    add('ok:update', 'update set a2 = "q"')
    add('ok:join', 'select a1, b2' + J, join=JOIN_BYTES)
    add('ok:left-join', 'select a1, b2 left join jt.csv on a1 == b1', join=JOIN_BYTES)
    add('ok:update-join', 'update set a3 = b2' + J, join=JOIN_UNIQ)
    add('ok:header-join', 'select a.id, b.color join jt.csv on a.id == b.id', main=b'id,num,tag\n' + _main_bytes(), join=b'id,color\n' + JOIN_BYTES, with_headers=True)
    add('ok:none-warning', 'select a1, None')
    add('ok:join-alias', 'select a1, b2 join myalias on a1 == b1', join=JOIN_BYTES, table_names=True)
    add('ok:init-source', 'select a1, foo(a2)', init_source=True)
    add('ok:init-source-join', 'select foo(a1), b2' + J, join=JOIN_BYTES, init_source=True)
    add('ok:rfc', 'select a1, a2', main=b'1,"multi\nline"\n2,b\n', policy='quoted_rfc')
    add('ok:latin-1', 'select a1, a2', main=b'1,\xff\xfe\n2,b\n', encoding='latin-1')
    # parsing errors
    add('parse:assignment-in-where', 'select a1 where a1 = 1')
    add('parse:assignment-in-where:join', 'select a1, b2' + J + ' where a1 = 1', join=JOIN_BYTES)
    add('parse:order-by-in-update', 'update set a1 = 1 order by a2')
    add('parse:except-and-join', 'select * except a1' + J, join=JOIN_BYTES)
    add('parse:group-and-order', 'select a1 group by a1 order by a1')
    add('parse:two-unnest', 'select unnest(a1), unnest(a2)')
    add('parse:two-unnest:join', 'select unnest(a1), unnest(b2)' + J, join=JOIN_BYTES)
    add('parse:aggregate-misuse', 'select a1, count(*) + 1 group by a1')
    add('parse:syntax', 'select a1 +')
    add('parse:syntax:join', 'select a1 +' + J, join=JOIN_BYTES)
    add('parse:bad-join-condition', 'select a1 join jt.csv on a1 > b1', join=JOIN_BYTES)
    add('parse:unknown-join-var', 'select a1 join jt.csv on a1 == c1', join=JOIN_BYTES)
    add('parse:no-select', 'where a1 == 1')
    add('parse:unknown-column', 'select a.nosuch', main=b'id,num,tag\n' + _main_bytes(), with_headers=True)
    add('parse:bad-init-source', 'select a1', init_source='def broken(:\n')
    # runtime errors: a poisoned record at every position x every clause that can evaluate it, with and without a JOIN file
    clauses = [
        ('select', 'select a1, int(a2)%s'),
        ('where', 'select a1%s where int(a2) > 5'),
        ('order-by', 'select a1%s order by int(a2)'),
        ('group-by', 'select int(a2), count(*)%s group by int(a2)'),
        ('aggregate-arg', 'select sum(int(a2))%s'),
        ('update', 'update set a3 = int(a2)%s'),
    ]
    for pos in range(len(MAIN_ROWS)):
        for poison in (b'oops', b'short'):
            if not thorough and poison == b'short' and pos not in (0, 3):
                continue
            for cname, tmpl in clauses:
                for with_join in (False, True):
                    add('runtime:%s:%s:k=%d%s' % (cname, poison.decode(), pos, ':join' if with_join else ''), tmpl % (J if with_join else ''),
                        main=_main_bytes(pos, poison), join=JOIN_UNIQ if with_join else None)
        add('runtime:join-key:k=%d' % pos, 'select a1, b2 join jt.csv on a2 == b1', main=_main_bytes(pos, b'short'), join=JOIN_BYTES)
    add('runtime:strict-left-join', 'select a1, b2 strict left join jt.csv on a1 == b1', join=JOIN_BYTES)
    add('runtime:update-join-many', 'update set a3 = b2' + J, join=JOIN_BYTES)
    add('runtime:join-b-field', 'select a1 join jt.csv on a1 == b5', join=JOIN_BYTES)
    add('runtime:init-source-raises', 'select a1', init_source='raise ValueError("boom")\n')
    # IO errors
    bad_main_first = b'1,1\xff0,x\n2,20,y\n'
    bad_main_last = _main_bytes() + b'5,5\xe4\xb8,v\n'
    filler = b''.join(b'%d,filler_filler_filler\n' % i for i in range(10, 1200))
    assert len(filler) > 3 * 8192
    add('io:bad-utf8:main-first', 'select a1', main=bad_main_first)
    add('io:bad-utf8:main-last', 'select a1', main=bad_main_last)
    add('io:bad-utf8:main-deep', 'select a1', main=_main_bytes() + filler + b'9,\xff,z\n')
    add('io:bad-utf8:main-deep:sorted', 'select a1 order by a1', main=_main_bytes() + filler + b'9,\xff,z\n')
    add('io:bad-utf8:main-first:join', 'select a1, b2' + J, main=bad_main_first, join=JOIN_BYTES)
    add('io:bad-utf8:main-deep:join', 'select a1, b2' + J, main=_main_bytes() + filler + b'9,\xff,z\n', join=JOIN_BYTES)
    add('io:bad-utf8:join-first', 'select a1, b2' + J, join=b'1,r\xffed\n2,green\n')
    add('io:bad-utf8:join-second', 'select a1, b2' + J, join=b'1,red\n2,gr\xc3een\n')
    add('io:bad-utf8:join-deep', 'select a1, b2' + J, join=JOIN_BYTES + filler + b'999,bl\xffue\n')
    add('io:bad-utf8:join-header', 'select a1, b2' + J, main=b'id,num,tag\n' + _main_bytes(), join=b'id,co\xfflor\n1,red\n', with_headers=True)
    add('io:rfc-quoting:main-first', 'select a1', main=b'1,"a"b\n2,c\n', policy='quoted_rfc')
    add('io:rfc-quoting:main-third', 'select a1', main=b'1,a\n2,b\n3,"c"d\n', policy='quoted_rfc')
    add('io:rfc-quoting:join-first', 'select a1, b2' + J, join=b'1,"r"ed\n2,green\n', policy='quoted_rfc')
    add('io:rfc-quoting:join-third', 'select a1, b2' + J, join=b'1,red\n2,green\n3,"bl"ue\n', policy='quoted_rfc')
    add('io:join-table-missing', 'select a1, b2 join nosuch.csv on a1 == b1')
    add('io:join-table-missing:alias-file', 'select a1, b2 join nosuch.csv on a1 == b1', table_names=True)
    add('io:dquote-delim-quoted', 'select a1', delim='"', policy='quoted')
    add('io:whitespace-policy-comma', 'select a1', delim=',', policy='whitespace', out_policy='simple')
    add('io:non-ascii-query-latin-1', 'select a1, "é"', encoding='latin-1')
    add('io:monocolumn-output', 'select a1, a2', out_policy='monocolumn')
    add('io:header-width', 'select distinct count a.id', main=b'id,num,tag\n' + _main_bytes(), with_headers=True)
    add('io:input-missing', 'select a1', main=None)
    add('io:input-missing:join', 'select a1, b2' + J, main=None, join=JOIN_BYTES)
    add('io:output-dir-missing', 'select a1', bad_output=True)
    return S


def _scenario_to_json(sc):
    d = dict(sc)
    d['main'] = None if sc['main'] is None else sc['main'].hex()
    d['join'] = None if sc['join'] is None else sc['join'].hex()
    if len(d['main'] or '') > 4000 or len(d['join'] or '') > 4000:
        d['main'] = d['join'] = None
        d['by_name'] = True
    return d


def _scenario_from_json(d):
    if d.get('by_name'):
        for sc in _fd_scenarios(True):
            if sc['name'] == d['name']:
                return sc
        raise KeyError(d['name'])
    sc = dict(d)
    sc['main'] = None if d['main'] is None else bytes.fromhex(d['main'])
    sc['join'] = None if d['join'] is None else bytes.fromhex(d['join'])
    return sc


def _run_fd_scenario(eng, rbql_csv, sc):
    """-> dict(outcome, leaked=[names of files still open], fd_leak=[...], tracked=[...])"""
    tmp = tempfile.mkdtemp(prefix='rbql_verif_c15f_')
    saved_home = os.environ.get('HOME')
    gc_was = gc.isenabled()
    res = {}
    try:
        home = os.path.join(tmp, 'home')
        os.mkdir(home)
        os.environ['HOME'] = home
        ip, jp, op = os.path.join(tmp, 'in.csv'), os.path.join(tmp, 'jt.csv'), os.path.join(tmp, 'out.csv')
        if sc['main'] is not None:
            with open(ip, 'wb') as f:
                f.write(sc['main'])
        if sc['join'] is not None:
            with open(jp, 'wb') as f:
                f.write(sc['join'])
        if sc.get('table_names'):
            with open(os.path.join(home, '.rbql_table_names'), 'w') as f:
                f.write('other\t/nonexistent/file\nmyalias\t%s\n' % jp)
        if sc.get('init_source'):
            with open(os.path.join(home, '.rbql_init_source.py'), 'w') as f:
                f.write(sc['init_source'] if isinstance(sc['init_source'], str) else 'def foo(x):\n    return "<" + x + ">"\n')
        if sc.get('bad_output'):
            op = os.path.join(tmp, 'no_such_dir', 'out.csv')
        warnings = []
        gc.collect()
        gc.disable()
        before = _fd_table()
        exc = None
        with _OpenTracker() as tr:
            try:
                rbql_csv.query_csv(sc['query'], ip, sc['delim'], sc['policy'], op, sc['delim'], sc['out_policy'], sc['encoding'], warnings, sc['with_headers'])
                outcome = 'success'
            except Exception as e:
                exc = e      # keeps the traceback, hence the frames and their locals, alive: nothing is closed by refcounting
                outcome = type(e).__name__
            leaked = sorted(os.path.basename(p) for p, f in tr.opened if not f.closed)
        after = _fd_table()
        fd_leak = []
        if before is not None and after is not None:
            fd_leak = sorted('%s -> %s' % (k, v) for k, v in after.items() if before.get(k) != v)
        res = {'outcome': outcome, 'message': None if exc is None else str(exc)[:160], 'leaked': leaked, 'fd_leak': fd_leak,
               'tracked': sorted(os.path.basename(p) for p, f in tr.opened)}
        for p, f in tr.opened:
            if not f.closed:
                try:
                    f.close()
                except Exception:
                    pass
        del exc
    finally:
        if gc_was:
            gc.enable()
        if saved_home is None:
            os.environ.pop('HOME', None)
        else:
            os.environ['HOME'] = saved_home
        shutil.rmtree(tmp, ignore_errors=True)
    return res


def _judge_fd(sc, res):
    bad = []
    if res['leaked']:
        bad.append(('open-file', 'every file opened during query_csv is closed when it returns/raises (%s)' % res['outcome'], 'still open: %s' % res['leaked']))
    if res['fd_leak']:
        bad.append(('fd', '/proc/self/fd unchanged by query_csv (%s)' % res['outcome'], 'new descriptors: %s' % res['fd_leak']))
    # the tracker must have seen the front-end's opens, otherwise this job is blind
    expect_tracked = (0 if sc.get('bad_output') else 1) + (1 if sc['main'] is not None and not sc.get('bad_output') else 0)
    if len([t for t in res['tracked'] if t in ('in.csv', 'out.csv')]) < expect_tracked:
        bad.append(('tracker-blind', 'open() of the input and output files observed', 'tracked only %s' % res['tracked']))
    if sc['name'].startswith('io:bad-utf8') and res['outcome'] != 'RbqlIOHandlingError':
        bad.append(('bad-bytes-outcome', 'RbqlIOHandlingError', '%s: %s' % (res['outcome'], res['message'])))
    return bad


def replay_c15_fd(case):
    rbql, eng = load_rbql()
    from rbql import rbql_csv
    sc = _scenario_from_json(case['scenario'])
    res = _run_fd_scenario(eng, rbql_csv, sc)
    bad = _judge_fd(sc, res)
    return {'fails': bool(bad), 'expected': [b[1] for b in bad] or 'all files closed', 'observed': [b[2] for b in bad] or 'ok', 'outcome': res['outcome'], 'message': res['message']}


@job('C15')
def files_closed_on_every_path(prop, tier, seed):
    rbql, eng = load_rbql()
    from rbql import rbql_csv
    thorough = tier != 'quick'
    fails, n = [], 0
    outcomes = {}
    by_class = {}
    scenarios = _fd_scenarios(thorough)
    for sc in scenarios:
        res = _run_fd_scenario(eng, rbql_csv, sc)
        n += 1
        outcomes[res['outcome']] = outcomes.get(res['outcome'], 0) + 1
        by_class.setdefault(sc['name'].split(':')[0], set()).add(res['outcome'])
        bad = _judge_fd(sc, res)
        if bad and len(fails) < MAX_FAILS:
            parts = sc['name'].split(':')
            key = 'fd:%s:%s:%s' % (bad[0][0], ':'.join(p for p in parts if not p.startswith('k=')), res['outcome'])
            if not any(f['key'] == key for f in fails):
                fails.append({'replay': 'c15_fd', 'key': key, 'scenario': _scenario_to_json(sc), 'query': sc['query'], 'outcome': res['outcome'], 'message': res['message'],
                              'expected': bad[0][1], 'observed': bad[0][2]})
    # the scenario families must really drive the four paths of the statement
    need = {'success', 'RbqlParsingError', 'RbqlRuntimeError', 'RbqlIOHandlingError'}
    if not need <= set(outcomes) and len(fails) < MAX_FAILS:
        fails.append({'replay': 'none', 'key': 'fd:coverage', 'expected': 'scenarios reach success, parsing, runtime and IO error paths', 'observed': outcomes})
    return {'job': 'files_closed_on_every_path', 'evaluations': n, 'distinct_nontrivial': n, 'exhaustive': False,
            'rule': '%d query_csv scenarios on real files: 14 success shapes (join, alias file ~/.rbql_table_names, ~/.rbql_init_source.py, rfc, latin-1), 15 parsing-error texts, a poisoned record (bad value / short record) at every position of a 4-record table x 6 clauses (SELECT, WHERE, ORDER BY, GROUP BY, aggregate argument, UPDATE) x with/without JOIN file + JOIN-key / strict-left / update-join runtime errors, 24 IO errors (bad UTF-8 in first/last/deep block of main and join table, rfc quoting in 1st/3rd record of main and join, missing join/input/output, incompatible options, monocolumn, header width): every file object opened via open()/io.open() during the call is closed when the call returns or raises (exception and frames kept alive, gc disabled), and /proc/self/fd is unchanged'
                    % len(scenarios),
            'failures': fails[:MAX_FAILS], 'samples': [{'outcomes': outcomes}, {'by_family': dict((k, sorted(v)) for k, v in by_class.items())}],
            'assumptions': ['files are opened through builtins.open / io.open (also what codecs.open uses); descriptors obtained another way are only seen by the /proc/self/fd comparison']}


# ------------------------------------------------------------------------------------------------------------------
# (5) the command line over a real OS pipe
# ------------------------------------------------------------------------------------------------------------------

_CLI_BOOT = ("import sys; import rbql.rbql_engine as e; assert e.__file__.startswith(%r), e.__file__; "
             "from rbql.rbql_main import main; sys.argv = ['rbql'] + sys.argv[1:]; main()")

VENV_PY = '/venv/bin/python'


def _cli(args, stdin_bytes, close_stdout_first, cwd):
    root = os.path.join(REPO, 'rbql-py')
    env = dict(os.environ, PYTHONPATH=root, PYTHONWARNINGS='ignore', PYTHONDONTWRITEBYTECODE='1')
    env.pop('PYTHONHOME', None)
    p = subprocess.Popen([VENV_PY, '-W', 'ignore', '-c', _CLI_BOOT % root] + args, stdin=subprocess.PIPE, stdout=subprocess.PIPE, stderr=subprocess.PIPE, env=env, cwd=cwd)
    out = b''
    try:
        if close_stdout_first:
            p.stdout.close()        # the consumer is gone before the first byte is produced: every write / the final flush hits EPIPE
        try:
            p.stdin.write(stdin_bytes)
            p.stdin.close()
        except (BrokenPipeError, OSError):
            try:
                p.stdin.close()
            except Exception:
                pass
        if not close_stdout_first:
            out = p.stdout.read()
            p.stdout.close()
        err = p.stderr.read()
        p.stderr.close()
        rc = p.wait(timeout=60)
    finally:
        if p.poll() is None:
            p.kill()
            p.wait()
    return rc, out, err.decode('utf-8', 'replace')


CLI_QUERIES = [
    ('streaming', 'select a1, a2'),
    ('sorted', 'select a1, a2 order by int(a2) desc'),
    ('aggregated', 'select a2, count(*) group by a2'),
    ('update', 'update set a2 = "z"'),
    ('distinct-count', 'select distinct count a1'),
    ('unnest', 'select a1, unnest(a2.split("1"))'),
]


def _cli_pipe_case(case, cwd):
    data = ''.join('k%d,%d\n' % (i % 7, i) for i in range(case['nrec'])).encode()
    rc, out, err = _cli(['--query', case['query'], '--delim', ',', '--policy', 'quoted'], data, True, cwd)
    bad = []
    if rc != 0:
        bad.append(('exit code 0 (query returns without error)', 'exit code %d; stderr: %s' % (rc, err[-300:])))
    elif 'Traceback' in err or 'BrokenPipeError' in err or 'Error' in err:
        bad.append(('nothing reported about the broken pipe', err[-300:]))
    return bad


def _cli_badbyte_case(case, cwd):
    data = bytes.fromhex(case['data_hex'])
    rc, out, err = _cli(['--query', case['query'], '--delim', ',', '--policy', 'quoted'], data, False, cwd)
    bad = []
    if rc == 0:
        bad.append(('non-zero exit code (reading fails)', 'exit code 0, stdout %r' % out[:100]))
    elif 'Traceback' in err or 'UnicodeDecodeError' in err or 'IO handling' not in err:
        bad.append(('an IO-handling error is reported, no raw decoding exception', err[-300:]))
    return bad


def replay_c15_cli(case):
    if not os.path.exists(VENV_PY):
        return {'fails': False, 'expected': 'n/a', 'observed': 'no %s' % VENV_PY}
    tmp = tempfile.mkdtemp(prefix='rbql_verif_c15c_')
    try:
        bad = (_cli_pipe_case if case['kind'] == 'pipe' else _cli_badbyte_case)(case, tmp)
    finally:
        shutil.rmtree(tmp, ignore_errors=True)
    return {'fails': bool(bad), 'expected': [b[0] for b in bad] or 'clean exit', 'observed': [b[1] for b in bad] or 'ok'}


@job('C15')
def cli_real_pipe(prop, tier, seed):
    thorough = tier != 'quick'
    fails, n = [], 0
    if not os.path.exists(VENV_PY):
        return {'job': 'cli_real_pipe', 'evaluations': 0, 'distinct_nontrivial': 0, 'exhaustive': False, 'rule': 'skipped: %s not present' % VENV_PY, 'failures': [], 'samples': [], 'assumptions': []}
    tmp = tempfile.mkdtemp(prefix='rbql_verif_c15c_')
    try:
        queries = CLI_QUERIES if thorough else CLI_QUERIES[:4]
        for name, q in queries:
            for nrec in ((3, 400, 6000) if thorough else ((3, 6000) if name in ('streaming', 'sorted') else (6000 if name == 'update' else 3,))):
                case = {'kind': 'pipe', 'query': q, 'nrec': nrec}
                bad = _cli_pipe_case(case, tmp)
                n += 1
                if bad and len(fails) < MAX_FAILS:
                    fails.append(dict(case, replay='c15_cli', key='cli:pipe:%s:%s' % (name, 'small' if nrec < 100 else 'large'), expected=bad[0][0], observed=bad[0][1]))
        good = ''.join('k%d,%d\n' % (i % 7, i) for i in range(30)).encode()
        positions = (0, 7, len(good)) if not thorough else (0, 1, 7, 100, len(good) - 1, len(good))
        for p in positions:
            for q in (('select a1, a2', 'select a1 order by a2') if thorough else ('select a1, a2',)):
                case = {'kind': 'badbyte', 'query': q, 'data_hex': (good[:p] + b'\xff' + good[p:]).hex(), 'position': p}
                bad = _cli_badbyte_case(case, tmp)
                n += 1
                if bad and len(fails) < MAX_FAILS:
                    fails.append(dict(case, replay='c15_cli', key='cli:badbyte:%s' % ('first' if p == 0 else 'later'), expected=bad[0][0], observed=bad[0][1]))
    finally:
        shutil.rmtree(tmp, ignore_errors=True)
    return {'job': 'cli_real_pipe', 'evaluations': n, 'distinct_nontrivial': n, 'exhaustive': False,
            'rule': '`python -m rbql` (tree code, /venv interpreter) reading stdin and writing to an OS pipe whose read end is closed before any output: %d query shapes x output sizes {3, 6000 records} (EPIPE at the final flush / at a write): exit code 0 and nothing but silence on stderr; stdin with 0xff at %d positions: non-zero exit, "IO handling" error, no traceback'
                    % (len(queries), len(positions)),
            'failures': fails, 'samples': [], 'assumptions': ['a real pipe delivers errno EPIPE only; other broken-pipe flavours are covered in-process by broken_pipe_csv_writer']}
