"""BOUNDED job for C18: the Python and the JavaScript implementation agree on the CSV dialect and on output headers.

Differential: the same cases are run through the tree's Python code (in process) and through the tree's JavaScript code (one
node driver that require()s <REPO>/rbql-js/*.js by absolute path).  Where the property statement gives an absolute
expectation (a representable table written by one side is read back as that table by the other side) it is checked as such;
everywhere else the expectation is "both sides give the same observable result".

Exhaustive parts exchange SHA-1 digests per block of cases (both sides enumerate the same domain in the same order and hash
the same canonical serialisation); a block whose digests differ is re-run case by case with full results to find the inputs.
"""
import hashlib
import io
import itertools
import json
import os
import random
import re
import subprocess
import tempfile
import time

from .registry import job
from .refsem import load_rbql, REPO

REPO_JS = os.path.join(REPO, 'rbql-js')
MAX_FAILS = 5
BLOCK = 512

NODE_DRIVER = r'''
'use strict';
const fs = require('fs');
const path = require('path');
const crypto = require('crypto');
const stream_mod = require('stream');
const REPO_JS = process.argv[2];
const csv_utils = require(path.join(REPO_JS, 'csv_utils.js'));
const rbql_csv = require(path.join(REPO_JS, 'rbql_csv.js'));
const rbql = require(path.join(REPO_JS, 'rbql.js'));
{
    const real = fs.realpathSync(REPO_JS);
    for (const k of Object.keys(require.cache)) {
        if (/(csv_utils|rbql_csv|rbql)\.js$/.test(k) && !(k.startsWith(real + path.sep) || k.startsWith(REPO_JS + path.sep)))
            throw new Error('wrong module loaded: ' + k);
    }
}
const TMP = path.dirname(process.argv[3]);

function* enum_words(alpha, maxlen) {
    for (let n = 0; n <= maxlen; n++) {
        let idx = new Array(n).fill(0);
        while (true) {
            let s = '';
            for (let i = 0; i < n; i++) s += alpha[idx[i]];
            yield s;
            let k = n - 1;
            while (k >= 0) {
                idx[k] += 1;
                if (idx[k] < alpha.length) break;
                idx[k] = 0;
                k -= 1;
            }
            if (k < 0) break;
        }
    }
}

function canon_split(res) {   // [fields, warning]
    return res[0].length + '\x1e' + res[0].join('\x1f') + '\x1e' + (res[1] ? '1' : '0');
}
function canon_list(res) {
    return res.length + '\x1e' + res.join('\x1f');
}

function call_fn(fn, s, dlm, policy, preserve) {
    // -> [canonical string, raw result]
    let r;
    switch (fn) {
        case 'smart_split': r = csv_utils.smart_split(s, dlm, policy, preserve); return [canon_split(r), r];
        case 'split_quoted_str': r = csv_utils.split_quoted_str(s, dlm, preserve); return [canon_split(r), r];
        case 'split_quoted_str_default': r = csv_utils.split_quoted_str(s, dlm); return [canon_split(r), r];
        case 'split_ws': r = csv_utils.split_whitespace_separated_str(s, preserve); return [canon_list(r), r];
        case 'split_ws_default': r = csv_utils.split_whitespace_separated_str(s); return [canon_list(r), r];
        case 'quote_field': r = csv_utils.quote_field(s, dlm); return [String(r), r];
        case 'rfc_quote_field': r = csv_utils.rfc_quote_field(s, dlm); return [String(r), r];
        case 'unquote_field': r = csv_utils.unquote_field(s); return [String(r), r];
        case 'unquote_fields': r = csv_utils.unquote_fields([s, s + 'a']); return [canon_list(r), r];
        case 'split_lines': r = csv_utils.split_lines(s); return [canon_list(r), r];
    }
    throw new Error('unknown fn ' + fn);
}

function safe_call(fn, s, dlm, policy, preserve) {
    try {
        return call_fn(fn, s, dlm, policy, preserve);
    } catch (e) {
        let name = 'E:' + (e && e.constructor ? e.constructor.name : 'unknown');
        return [name, {error: name, message: String(e && e.message)}];
    }
}

function digest(parts) {
    return crypto.createHash('sha1').update(parts.join('\x1d'), 'utf8').digest('hex');
}

function op_fn_enum(op) {
    let out = [];
    for (const cfg of op.configs) {
        let [fn, dlm, policy, preserve] = cfg;
        let digs = [];
        let parts = [];
        for (const w of enum_words(op.alpha, op.maxlen)) {
            parts.push(safe_call(fn, w, dlm, policy, preserve)[0]);
            if (parts.length == op.block) { digs.push(digest(parts)); parts = []; }
        }
        if (parts.length) digs.push(digest(parts));
        out.push(digs);
    }
    return {digests: out};
}

function op_fn_list(op) {
    let res = [];
    for (const c of op.cases) {
        let [fn, s, dlm, policy, preserve] = c;
        res.push(safe_call(fn, s, dlm, policy, preserve)[1]);
    }
    return {results: res};
}

// ---------------------------------------------------------------- readers
function classify(msg) {
    msg = String(msg);
    let nums = (msg.match(/[0-9]+/g) || []).join(',');
    if (/BOM/.test(msg)) return 'bom';
    if (/double quote/i.test(msg)) return 'quoting:' + nums;
    if (/Number of fields/i.test(msg)) return 'fieldcount:' + nums;
    if (/decode/i.test(msg)) return 'decode';
    if (/separator/i.test(msg)) return 'separator';
    if (/(null|None) values/.test(msg)) return 'null';
    if (/Monocolumn/i.test(msg)) return 'monocolumn';
    if (/number of columns/i.test(msg)) return 'headerwidth:' + nums;
    return 'other:' + msg;
}

function make_stream(chunks) {
    // a real node Readable that delivers the given Buffers as its 'data' chunks
    return stream_mod.Readable.from(chunks, {objectMode: true});
}

let bulk_counter = 0;

// an exception thrown inside a stream event handler is not delivered to any promise: route it to the case that is running
let current_reject = null;
process.on('uncaughtException', (e) => {
    if (current_reject !== null) { let r = current_reject; current_reject = null; r(e); }
    else { console.error('uncaught exception outside a case: ' + (e && e.stack ? e.stack : String(e))); process.exit(4); }
});
function guarded(work) {
    let guard = new Promise((resolve, reject) => { current_reject = reject; });
    guard.catch(() => {});
    return Promise.race([work(), guard]).finally(() => { current_reject = null; });
}

async function read_case(c) {
    // c: {hex|buf, enc, dlm, policy, has_header, comment_prefix, mode, cuts}
    let buf = c.buf !== undefined ? c.buf : Buffer.from(c.hex, 'hex');
    let enc = c.enc == 'latin-1' ? 'binary' : c.enc;
    let res = {error: null, error_kind: null, header: null, records: null, warnings: null};
    let bulk_path = null;
    try {
        let it;
        if (c.mode == 'bulk') {
            bulk_path = path.join(TMP, 'bulk_' + (bulk_counter++) + '.csv');
            fs.writeFileSync(bulk_path, buf);
            it = new rbql_csv.CSVRecordIterator(null, bulk_path, enc, c.dlm, c.policy, c.has_header, c.comment_prefix);
        } else {
            let chunks = [];
            if (c.cuts && c.cuts.length) {
                let prev = 0;
                for (const cut of c.cuts) { chunks.push(buf.subarray(prev, cut)); prev = cut; }
                chunks.push(buf.subarray(prev));
                chunks = chunks.filter(b => b.length > 0);
            } else if (buf.length) {
                chunks.push(buf);
            }
            it = new rbql_csv.CSVRecordIterator(make_stream(chunks), null, enc, c.dlm, c.policy, c.has_header, c.comment_prefix);
        }
        await guarded(async () => {
            if (c.has_header)
                res.header = await it.get_header();
            res.records = await it.get_all_records();
        });
        res.warnings = it.get_warnings().map(classify).sort();
    } catch (e) {
        res.error = (e && e.constructor) ? e.constructor.name : 'unknown';
        res.error_kind = classify(e && e.message);
        res.records = null; res.header = null; res.warnings = null;
    } finally {
        if (bulk_path !== null) { try { fs.unlinkSync(bulk_path); } catch (e2) {} }
    }
    return res;
}

function canon_reader(res) {
    if (res.error !== null)
        return 'E:' + res.error + ':' + res.error_kind;
    let h = res.header === null ? 'N' : res.header.length + '\x1f' + res.header.join('\x1f');
    let r = res.records.map(x => x.length + '\x1f' + x.join('\x1f')).join('\x1e');
    return 'H' + h + '\x1eR' + res.records.length + '\x1e' + r + '\x1eW' + res.warnings.join(';');
}

async function op_reader_enum(op) {
    let prefix = Buffer.from(op.prefix_hex || '', 'hex');
    let out = [];
    for (const cfg of op.configs) {
        let digs = [];
        let parts = [];
        for (const w of enum_words(op.alpha, op.maxlen)) {
            let c = Object.assign({}, cfg);
            c.buf = Buffer.concat([prefix, Buffer.from(w, 'latin1')]);
            parts.push(canon_reader(await read_case(c)));
            if (parts.length == op.block) { digs.push(digest(parts)); parts = []; }
        }
        if (parts.length) digs.push(digest(parts));
        out.push(digs);
    }
    return {digests: out};
}

async function op_reader_list(op) {
    let res = [];
    for (const c of op.cases) res.push(await read_case(c));
    return {results: res};
}

// ---------------------------------------------------------------- writers
let unhandled = null;
process.on('unhandledRejection', (reason) => { unhandled = reason; });

class Sink extends stream_mod.Writable {
    constructor() { super({decodeStrings: true}); this.chunks = []; }
    _write(chunk, encoding, callback) { this.chunks.push(Buffer.from(chunk)); callback(); }
}

async function write_case(c) {
    // c: {table, header, enc, dlm, policy, line_separator}
    let res = {error: null, error_kind: null, hex: null, warnings: null};
    try {
        let sink = new Sink();
        let enc = c.enc == 'latin-1' ? 'binary' : c.enc;
        let w = c.line_separator === undefined || c.line_separator === null ? new rbql_csv.CSVWriter(sink, true, enc, c.dlm, c.policy) : new rbql_csv.CSVWriter(sink, true, enc, c.dlm, c.policy, c.line_separator);
        let with_header = c.header !== undefined && c.header !== null;
        if (with_header) {
            unhandled = null;
            w.set_header(c.header.slice());   // set_header() does not return the promise of its write(): a failure surfaces as an unhandled rejection
            await new Promise(r => setImmediate(r));
            if (unhandled !== null) { let e = unhandled; unhandled = null; throw e; }
        }
        await guarded(async () => {
            for (const rec of c.table)
                await w.write(rec.slice());
            await w.finish();
        });
        res.hex = Buffer.concat(sink.chunks).toString('hex');
        res.warnings = w.get_warnings().map(classify).sort();
    } catch (e) {
        res.error = (e && e.constructor) ? e.constructor.name : 'unknown';
        res.error_kind = classify(e && e.message);
    }
    return res;
}

async function op_writer_list(op) {
    let res = [];
    for (const c of op.cases) res.push(await write_case(c));
    return {results: res};
}

// ---------------------------------------------------------------- headers
async function op_header_list(op) {
    let res = [];
    for (const c of op.cases) {
        let r = {error: null, message: null, header: null, width: null};
        try {
            let out = [], names = [], warnings = [];
            let a = c.input_table.map(x => x.slice());
            let b = c.join_table === null ? null : c.join_table.map(x => x.slice());
            await guarded(() => rbql.query_table(c.query, a, out, warnings, b, c.input_names === null ? null : c.input_names.slice(), c.join_names === null ? null : c.join_names.slice(), names));
            r.header = names;
            r.width = out.length ? out[0].length : null;
        } catch (e) {
            r.error = (e && e.constructor) ? e.constructor.name : 'unknown';
            r.message = String(e && e.message).substring(0, 300);
        }
        res.push(r);
    }
    return {results: res};
}

async function main() {
    let batch = JSON.parse(fs.readFileSync(process.argv[3], 'utf8'));
    let results = [];
    for (const op of batch.ops) {
        if (op.op == 'fn_enum') results.push(op_fn_enum(op));
        else if (op.op == 'fn_list') results.push(op_fn_list(op));
        else if (op.op == 'reader_enum') results.push(await op_reader_enum(op));
        else if (op.op == 'reader_list') results.push(await op_reader_list(op));
        else if (op.op == 'writer_list') results.push(await op_writer_list(op));
        else if (op.op == 'header_list') results.push(await op_header_list(op));
        else throw new Error('unknown op ' + op.op);
    }
    fs.writeFileSync(process.argv[4], JSON.stringify({ok: true, repo_js: REPO_JS, results: results}));
}

main().then(() => { process.exit(0); }, (e) => { console.error(e && e.stack ? e.stack : String(e)); process.exit(3); });
'''


# ------------------------------------------------------------------------------------------------ infrastructure
class NodeCtx(object):
    def __init__(self):
        self.tmp = tempfile.mkdtemp(prefix='rbql_verif_c18_')
        self.driver = os.path.join(self.tmp, 'driver.js')
        with open(self.driver, 'w') as f:
            f.write(NODE_DRIVER)
        self.launches = 0

    def close(self):
        for root, dirs, files in os.walk(self.tmp, topdown=False):
            for f in files:
                try:
                    os.unlink(os.path.join(root, f))
                except OSError:
                    pass
            for d in dirs:
                try:
                    os.rmdir(os.path.join(root, d))
                except OSError:
                    pass
        try:
            os.rmdir(self.tmp)
        except OSError:
            pass


def words(alpha, maxlen):
    for n in range(maxlen + 1):
        for w in itertools.product(alpha, repeat=n):
            yield ''.join(w)


def n_words(k, maxlen):
    return sum(k ** n for n in range(maxlen + 1))


def digest(parts):
    return hashlib.sha1('\x1d'.join(parts).encode('utf-8')).hexdigest()


def canon_split(res):
    return '%d\x1e%s\x1e%s' % (len(res[0]), '\x1f'.join(res[0]), '1' if res[1] else '0')


def canon_list(res):
    return '%d\x1e%s' % (len(res), '\x1f'.join(res))


def py_call_fn(cu, fn, s, dlm, policy, preserve):
    """-> (canonical string, raw JSON-like result) ; mirrors call_fn of the node driver"""
    try:
        if fn == 'smart_split':
            r = cu.smart_split(s, dlm, policy, preserve)
            r = [list(r[0]), bool(r[1])]
            return canon_split(r), r
        if fn == 'split_quoted_str':
            r = cu.split_quoted_str(s, dlm, preserve)
            r = [list(r[0]), bool(r[1])]
            return canon_split(r), r
        if fn == 'split_quoted_str_default':
            r = cu.split_quoted_str(s, dlm)
            r = [list(r[0]), bool(r[1])]
            return canon_split(r), r
        if fn == 'split_ws':
            r = list(cu.split_whitespace_separated_str(s, preserve))
            return canon_list(r), r
        if fn == 'split_ws_default':
            r = list(cu.split_whitespace_separated_str(s))
            return canon_list(r), r
        if fn == 'quote_field':
            r = cu.quote_field(s, dlm)
            return r, r
        if fn == 'rfc_quote_field':
            r = cu.rfc_quote_field(s, dlm)
            return r, r
        if fn == 'unquote_field':
            r = cu.unquote_field(s)
            return r, r
        if fn == 'unquote_fields':
            r = list(cu.unquote_fields([s, s + 'a']))
            return canon_list(r), r
    except Exception as e:
        return 'E', {'error': 'E', 'message': '%s: %s' % (type(e).__name__, e)}
    raise ValueError(fn)


def norm_js_raw(r):
    if isinstance(r, dict) and 'error' in r:
        return {'error': 'E'}
    return r


def norm_py_raw(r):
    if isinstance(r, dict) and 'error' in r:
        return {'error': 'E'}
    return r


_num_rgx = re.compile('[0-9]+')


def classify(msg):
    """warning / error text -> category (+ the numbers in it); the same function exists in the node driver"""
    msg = str(msg)
    nums = ','.join(_num_rgx.findall(msg))
    if re.search('BOM', msg):
        return 'bom'
    if re.search('double quote', msg, re.I):
        return 'quoting:' + nums
    if re.search('Number of fields', msg, re.I):
        return 'fieldcount:' + nums
    if re.search('decode', msg, re.I):
        return 'decode'
    if re.search('separator', msg, re.I):
        return 'separator'
    if re.search('(null|None) values', msg):
        return 'null'
    if re.search('Monocolumn', msg, re.I):
        return 'monocolumn'
    if re.search('number of columns', msg, re.I):
        return 'headerwidth:' + nums
    return 'other:' + msg


def py_read_case(rbql_csv, data, enc, dlm, policy, has_header, comment_prefix, py_text=False):
    res = {'error': None, 'error_kind': None, 'header': None, 'records': None, 'warnings': None}
    try:
        if py_text:
            # the same file handed to Python as already decoded text (no newline translation by the io layer)
            it = rbql_csv.CSVRecordIterator(io.StringIO(data.decode('utf-8' if enc == 'utf-8' else 'latin-1'), newline=''), None, dlm, policy, has_header, comment_prefix)
        else:
            it = rbql_csv.CSVRecordIterator(io.BytesIO(data), enc, dlm, policy, has_header, comment_prefix)
        if has_header:
            h = it.get_header()
            res['header'] = None if h is None else list(h)
        res['records'] = [list(r) for r in it.get_all_records()]
        res['warnings'] = sorted(classify(w) for w in it.get_warnings())
    except Exception as e:
        res = {'error': type(e).__name__, 'error_kind': classify(e), 'header': None, 'records': None, 'warnings': None}
    return res


def canon_reader(res):
    if res['error'] is not None:
        return 'E:%s:%s' % (res['error'], res['error_kind'])
    h = 'N' if res['header'] is None else '%d\x1f%s' % (len(res['header']), '\x1f'.join(res['header']))
    r = '\x1e'.join('%d\x1f%s' % (len(x), '\x1f'.join(x)) for x in res['records'])
    return 'H%s\x1eR%d\x1e%s\x1eW%s' % (h, len(res['records']), r, ';'.join(res['warnings']))


def reader_view(res):
    return {k: res.get(k) for k in ('error', 'error_kind', 'header', 'records', 'warnings')}


def start_node(ctx, ops):
    ctx.launches += 1
    ip = os.path.join(ctx.tmp, 'batch_%d.json' % ctx.launches)
    op = os.path.join(ctx.tmp, 'result_%d.json' % ctx.launches)
    with open(ip, 'w') as f:
        json.dump({'ops': ops}, f)
    env = dict(os.environ)
    env.pop('NODE_PATH', None)
    errf = open(os.path.join(ctx.tmp, 'stderr_%d.txt' % ctx.launches), 'wb')
    proc = subprocess.Popen(['node', '--max-old-space-size=2048', ctx.driver, REPO_JS, ip, op], cwd=ctx.tmp, env=env, stdin=subprocess.DEVNULL,
                            stdout=subprocess.DEVNULL, stderr=errf)
    return proc, ip, op, errf


def finish_node(ctx, handle, timeout):
    proc, ip, op, errf = handle
    try:
        try:
            rc = proc.wait(timeout=timeout)
        except subprocess.TimeoutExpired:
            proc.kill()
            proc.wait()
            raise RuntimeError('node driver timed out after %s s' % timeout)
    finally:
        errf.close()
    if rc != 0 or not os.path.exists(op):
        with open(errf.name, 'rb') as f:
            err = f.read().decode('utf-8', 'replace')
        raise RuntimeError('node driver failed (rc=%s): %s' % (rc, err[-1500:]))
    with open(op) as f:
        res = json.load(f)
    assert res.get('ok') and res.get('repo_js') == REPO_JS, res.get('repo_js')
    return res['results']


# ------------------------------------------------------------------------------------------------ part 1: csv_utils functions
DELIMS = [',', ';', '\t', ' ', '|', '::']
POLICIES = ['simple', 'quoted', 'quoted_rfc', 'whitespace', 'monocolumn']


def dedupe(xs):
    out = []
    for x in xs:
        if x not in out:
            out.append(x)
    return out


def dname(d):
    return {',': 'comma', ';': 'semicolon', '\t': 'tab', ' ': 'space', '|': 'pipe', '::': 'coloncolon', '': 'empty'}.get(d, repr(d))


def fn_plan(tier):
    """-> list of fn_enum ops (each: alpha, maxlen, configs)"""
    quick = tier == 'quick'
    l_split = 6 if quick else 8
    l_quote = 6 if quick else 7
    l_lf = 6 if quick else 7
    ops = []
    for dlm in DELIMS:
        letters = dedupe(['a', '"'] + sorted(set(dlm)) + [' '])
        configs = [['smart_split', dlm, pol, pres] for pol in POLICIES for pres in (False, True)]
        configs.append(['split_quoted_str_default', dlm, None, False])
        if dlm == ',':
            configs += [['split_ws', dlm, None, False], ['split_ws', dlm, None, True], ['split_ws_default', dlm, None, False],
                        ['unquote_field', dlm, None, False], ['unquote_fields', dlm, None, False]]
        ops.append({'op': 'fn_enum', 'alpha': letters, 'maxlen': l_split, 'configs': configs, 'block': BLOCK, 'tag': 'line'})
        ops.append({'op': 'fn_enum', 'alpha': letters + ['\n', '\r'], 'maxlen': l_quote, 'block': BLOCK, 'tag': 'field',
                    'configs': [['quote_field', dlm, None, False], ['rfc_quote_field', dlm, None, False]]})
        ops.append({'op': 'fn_enum', 'alpha': letters + ['\n'], 'maxlen': l_lf, 'block': BLOCK, 'tag': 'multiline',
                    'configs': [['split_quoted_str', dlm, None, False], ['split_quoted_str', dlm, None, True], ['split_ws', dlm, None, False], ['split_ws', dlm, None, True]]})
    # unquote_field is exercised on single lines only (the statement speaks of lines and of quoting; a text that ends in a line
    # break behind the closing quote is where Python's and JavaScript's `$` differ, and no line contains a line break)
    ops.append({'op': 'fn_enum', 'alpha': ['a', '"', ',', ' '], 'maxlen': l_quote, 'block': BLOCK, 'tag': 'field',
                'configs': [['unquote_field', ',', None, False]]})
    return ops


def fn_key(fn, s, dlm, policy, preserve):
    k = 'fn:%s' % fn
    if fn == 'smart_split':
        k += ':%s' % policy
    if fn in ('unquote_field', 'unquote_fields'):
        # inputs that end in a line break behind the closing quote are a class of their own
        m = re.search(r'"[ ]*(\r\n|\n|\r)\Z', s)
        return k + (':newline-after-closing-quote' if m else ':other')
    k += ':dlm=%s' % dname(dlm)
    if fn in ('smart_split', 'split_quoted_str', 'split_ws'):
        k += ':preserve=%d' % (1 if preserve else 0)
    return k


def fn_py_enum(cu, op):
    """python side of one fn_enum op: per config the list of block digests"""
    out = []
    for fn, dlm, policy, preserve in op['configs']:
        digs, parts = [], []
        for w in words(op['alpha'], op['maxlen']):
            parts.append(py_call_fn(cu, fn, w, dlm, policy, preserve)[0])
            if len(parts) == BLOCK:
                digs.append(digest(parts))
                parts = []
        if parts:
            digs.append(digest(parts))
        out.append(digs)
    return out


def block_words(alpha, maxlen, k):
    return list(itertools.islice(words(alpha, maxlen), k * BLOCK, (k + 1) * BLOCK))


def fn_compare_enum(op, py_digs, node_res, add_fail, pinpoint):
    """compare the per-block digests of one fn_enum op; queue differing blocks for case-by-case comparison"""
    n = 0
    total = n_words(len(op['alpha']), op['maxlen'])
    for ci, cfg in enumerate(op['configs']):
        fn, dlm, policy, preserve = cfg
        js_digs = node_res['digests'][ci]
        n += total
        if len(js_digs) != len(py_digs[ci]):
            add_fail({'replay': 'none', 'key': 'fn:enum-length:%s' % fn, 'kind': 'fn', 'expected': '%d blocks' % len(py_digs[ci]), 'observed': '%d blocks from node' % len(js_digs)})
            continue
        bad = [k for k in range(len(js_digs)) if js_digs[k] != py_digs[ci][k]]
        # spread the blocks that are looked at over the whole domain (short and long inputs)
        if len(bad) > 6:
            step = len(bad) / 6.0
            bad = [bad[int(t * step)] for t in range(6)]
        for k in bad:
            if len(pinpoint) > 80000:
                break
            pinpoint.extend([fn, bw, dlm, policy, preserve] for bw in block_words(op['alpha'], op['maxlen'], k))
    return n


UNI_LETTERS = ['a', 'b', '"', ' ', '\t', 'é', 'ß', '中', '\U0001F600', '\u2028', '\x0b', '\x0c', '\x85', '\xa0', '\u0130', '\u0301', "'", '\\', '#', '\x00', '\x1c']


def fn_random_cases(rnd, count):
    cases = []
    for _ in range(count):
        dlm = rnd.choice(DELIMS + ['é', '中', 'ab'])
        letters = UNI_LETTERS + list(dlm) * 3 + ['"'] * 3 + [' '] * 2
        s = ''.join(rnd.choice(letters) for _ in range(rnd.randint(0, 30)))
        r = rnd.random()
        if r < 0.55:
            cases.append(['smart_split', s, dlm, rnd.choice(POLICIES), rnd.random() < 0.5])
        elif r < 0.7:
            cases.append([rnd.choice(['quote_field', 'rfc_quote_field']), s + rnd.choice(['', '\n', '\r', '\r\n']), dlm, None, False])
        elif r < 0.8:
            cases.append(['split_quoted_str', s + rnd.choice(['', '\n"', '\n']), dlm, None, rnd.random() < 0.5])
        elif r < 0.9:
            cases.append(['split_ws', s, dlm, None, rnd.random() < 0.5])
        else:
            q = '"' + s.replace('"', '""') + '"'
            cases.append(['unquote_field', rnd.choice([q, ' ' + q, q + '  ', s]), dlm, None, False])
    return cases


def fn_py_list(cu, cases):
    return [norm_py_raw(py_call_fn(cu, fn, s, dlm, policy, preserve)[1]) for fn, s, dlm, policy, preserve in cases]


def fn_compare_list(cu, cases, js_results, add_fail, py_results=None):
    if py_results is None:
        py_results = fn_py_list(cu, cases)
    for c, j, p in zip(cases, js_results, py_results):
        fn, s, dlm, policy, preserve = c
        j = norm_js_raw(j)
        if p != j:
            add_fail({'replay': 'c18', 'kind': 'fn', 'key': fn_key(fn, s, dlm, policy, preserve), 'fn': fn, 'input': s, 'delim': dlm, 'policy': policy,
                      'preserve_quotes_and_whitespaces': preserve, 'expected': 'python and javascript return the same value', 'observed': {'python': p, 'js': j}})
    return len(cases)


# ------------------------------------------------------------------------------------------------ part 2: readers
READER_ALPHA = ['a', '"', ',', ' ', '\n', '\r', '#']
READER_DIALECTS = [('simple', ','), ('quoted', ','), ('quoted_rfc', ','), ('whitespace', ' '), ('monocolumn', '')]
BOM = b'\xef\xbb\xbf'


def reader_cfg(policy, dlm, cp, enc='utf-8', has_header=False, mode='stream'):
    return {'enc': enc, 'dlm': dlm, 'policy': policy, 'has_header': has_header, 'comment_prefix': cp, 'mode': mode}


def reader_plan(tier):
    quick = tier == 'quick'
    l_main = 5 if quick else 6
    l_bom = 3 if quick else 4
    ops = []
    main_cfgs = [reader_cfg(pol, dlm, cp) for pol, dlm in READER_DIALECTS for cp in (None, '#')]
    ops.append({'op': 'reader_enum', 'alpha': READER_ALPHA, 'maxlen': l_main, 'configs': main_cfgs, 'block': BLOCK, 'prefix_hex': '', 'tag': 'plain'})
    if not quick:
        # one more character for the dialect with the most states (multi-line records, comment lines)
        ops.append({'op': 'reader_enum', 'alpha': READER_ALPHA, 'maxlen': l_main + 1, 'configs': [reader_cfg('quoted_rfc', ',', '#')], 'block': BLOCK,
                    'prefix_hex': '', 'tag': 'plain'})
    # header mode and latin-1 on a shorter exhaustive domain
    hdr_cfgs = [reader_cfg(pol, dlm, cp, enc, True) for pol, dlm in READER_DIALECTS for cp in (None, '#') for enc in ('utf-8', 'latin-1')]
    hdr_cfgs += [reader_cfg(pol, dlm, cp, 'latin-1', False) for pol, dlm in READER_DIALECTS for cp in (None, '#')]
    for pol, dlm in READER_DIALECTS:
        for cp in (None, '#'):
            c = reader_cfg(pol, dlm, cp, 'utf-8', pol == 'quoted')
            c['py_text'] = True         # Python reads a text stream (encoding None), JS the same characters as UTF-8 bytes
            hdr_cfgs.append(c)
    ops.append({'op': 'reader_enum', 'alpha': READER_ALPHA, 'maxlen': l_main - 1, 'configs': hdr_cfgs, 'block': BLOCK, 'prefix_hex': '', 'tag': 'plain'})
    # files that start with the UTF-8 byte order mark: every reading mode of the JS reader
    bom_cfgs = []
    for mode in ('stream', 'bulk'):
        for enc in ('utf-8', 'latin-1'):
            for pol, dlm in READER_DIALECTS:
                for cp in (None, '#'):
                    if mode == 'bulk' and pol in ('whitespace', 'monocolumn') and cp is None:
                        continue
                    bom_cfgs.append(reader_cfg(pol, dlm, cp, enc, False, mode))
            bom_cfgs.append(reader_cfg('quoted', ',', None, enc, True, mode))
    ops.append({'op': 'reader_enum', 'alpha': READER_ALPHA, 'maxlen': l_bom, 'configs': bom_cfgs, 'block': BLOCK, 'prefix_hex': BOM.hex(), 'tag': 'bom'})
    return ops


def starts_with_bom(data):
    return data[:3] == BOM


def reader_key(case, p, j):
    data = bytes.fromhex(case['hex'])
    if p['error'] is not None or j['error'] is not None:
        if (p['error'] is None) != (j['error'] is None):
            aspect = 'error-vs-no-error'
        else:
            aspect = 'error-kind'
    elif p['records'] != j['records']:
        aspect = 'records'
    elif p['header'] != j['header']:
        aspect = 'header'
    else:
        cats = sorted(set(w.split(':')[0] for w in set(p['warnings']) ^ set(j['warnings'])))
        aspect = 'warnings[%s]' % ','.join(cats)
    mode = case.get('mode', 'stream') + ('-chunked' if case.get('cuts') else '') + ('+pytext' if case.get('py_text') else '')
    if starts_with_bom(data):
        # one class for every dialect / header mode: what differs is how the leading byte order mark is treated
        if aspect == 'header':
            aspect = 'records'
        return 'reader:bom-prefix:%s:%s:%s' % (mode, case['enc'], aspect)
    cls = case['policy'] + (':comment' if case['comment_prefix'] else '')
    return 'reader:%s:%s:%s%s:%s' % (cls, mode, case['enc'], ':hdr' if case['has_header'] else '', aspect)


def reader_py_case(rbql_csv, case):
    return py_read_case(rbql_csv, bytes.fromhex(case['hex']), case['enc'], case['dlm'], case['policy'], case['has_header'], case['comment_prefix'], bool(case.get('py_text')))


def reader_compare_case(rbql_csv, case, j, add_fail, p=None):
    data = bytes.fromhex(case['hex'])
    if p is None:
        p = reader_py_case(rbql_csv, case)
    if canon_reader(p) != canon_reader(j):
        f = {'replay': 'c18', 'kind': 'reader', 'key': reader_key(case, p, j), 'file_bytes': repr(data), 'expected': 'python and javascript readers give the same header, records, warnings and error',
             'observed': {'python': reader_view(p), 'js': reader_view(j)}}
        f.update(case)
        add_fail(f)
        return False
    return True


def reader_py_enum(rbql_csv, op):
    prefix = bytes.fromhex(op['prefix_hex'])
    out = []
    for cfg in op['configs']:
        digs, parts = [], []
        enc, dlm, policy, hh, cp, pt = cfg['enc'], cfg['dlm'], cfg['policy'], cfg['has_header'], cfg['comment_prefix'], bool(cfg.get('py_text'))
        for w in words(op['alpha'], op['maxlen']):
            parts.append(canon_reader(py_read_case(rbql_csv, prefix + w.encode('latin-1'), enc, dlm, policy, hh, cp, pt)))
            if len(parts) == BLOCK:
                digs.append(digest(parts))
                parts = []
        if parts:
            digs.append(digest(parts))
        out.append(digs)
    return out


def reader_compare_enum(op, py_digs, node_res, add_fail, pinpoint):
    n = 0
    prefix = bytes.fromhex(op['prefix_hex'])
    total = n_words(len(op['alpha']), op['maxlen'])
    for ci, cfg in enumerate(op['configs']):
        js_digs = node_res['digests'][ci]
        n += total
        if len(js_digs) != len(py_digs[ci]):
            add_fail({'replay': 'none', 'key': 'reader:enum-length', 'kind': 'reader', 'expected': '%d blocks' % len(py_digs[ci]), 'observed': '%d blocks from node' % len(js_digs)})
            continue
        bad = [k for k in range(len(js_digs)) if js_digs[k] != py_digs[ci][k]]
        if len(bad) > 3:
            step = len(bad) / 3.0
            bad = [bad[int(t * step)] for t in range(3)]
        for k in bad:
            if len(pinpoint) > 40000:
                break
            for w in block_words(op['alpha'], op['maxlen'], k):
                c = dict(cfg)
                c['hex'] = (prefix + w.encode('latin-1')).hex()
                pinpoint.append(c)
    return n


def cut_points(rnd, text_chars, enc):
    """chunk boundaries (byte offsets) that fall between characters"""
    offs, pos = [], 0
    for ch in text_chars[:-1]:
        pos += len(ch.encode('utf-8' if enc == 'utf-8' else 'latin-1'))
        offs.append(pos)
    k = rnd.randint(1, 3)
    return sorted(set(rnd.sample(offs, min(k, len(offs))))) if offs else []


def reader_random_cases(rnd, tier):
    quick = tier == 'quick'
    cases = []
    # (a) seeded longer files over the same 7 characters
    for _ in range(12000 if quick else 60000):
        n = rnd.randint(6, 9) if quick else rnd.randint(7, 12)
        s = ''.join(rnd.choice(READER_ALPHA + ['"', '\n', ',']) for _ in range(n))
        pol, dlm = rnd.choice(READER_DIALECTS)
        c = reader_cfg(pol, dlm, rnd.choice([None, '#']), rnd.choice(['utf-8', 'utf-8', 'latin-1']), rnd.random() < 0.25)
        if rnd.random() < 0.2:
            c['py_text'] = True
        c['hex'] = s.encode('latin-1').hex()
        cases.append(c)
    # (b) bulk mode and chunked delivery (ASCII, boundaries between characters) on short files
    for _ in range(1500 if quick else 6000):
        n = rnd.randint(1, 8)
        chars = [rnd.choice(READER_ALPHA + ['\r', '\n', '"']) for _ in range(n)]
        pol, dlm = rnd.choice(READER_DIALECTS)
        enc = rnd.choice(['utf-8', 'latin-1'])
        c = reader_cfg(pol, dlm, rnd.choice([None, '#']), enc, rnd.random() < 0.25, 'bulk' if rnd.random() < 0.5 else 'stream')
        if c['mode'] == 'stream':
            c['cuts'] = cut_points(rnd, chars, enc)
        c['hex'] = ''.join(chars).encode('latin-1').hex()
        cases.append(c)
    # (c) longer Unicode files, multi-character comment prefixes, other delimiters
    uni = ['a', 'b', '1', '"', '"', ',', ',', ' ', '\n', '\n', '\r', '\r\n', '#', 'é', 'ß', '中', '\U0001F600', '\t', ';', '\u2028', '\x0b', '\x0c', '\x85', '\x1c', '//', '\xa0']
    for _ in range(1500 if quick else 8000):
        chars = [rnd.choice(uni) for _ in range(rnd.randint(0, 60))]
        text = ''.join(chars)
        pol, dlm = rnd.choice(READER_DIALECTS + [('quoted', ';'), ('quoted_rfc', '\t'), ('simple', '\t'), ('quoted', ' '), ('quoted_rfc', 'é'), ('simple', '中')])
        enc = 'utf-8'
        if rnd.random() < 0.3 and all(ord(ch) < 256 for ch in text) and all(ord(ch) < 256 for ch in dlm):
            enc = 'latin-1'
        c = reader_cfg(pol, dlm, rnd.choice([None, '#', '//', 'é']), enc, rnd.random() < 0.25, rnd.choice(['stream', 'stream', 'bulk']))
        if enc == 'latin-1' and c['comment_prefix'] == 'é':
            c['comment_prefix'] = '#'
        c['hex'] = text.encode('utf-8' if enc == 'utf-8' else 'latin-1').hex()
        cases.append(c)
    # (d) byte strings that are not valid UTF-8, BOM in the middle, BOM bytes read as latin-1
    specials = [b'\xff', b'a,b\n\xff\xfe\n', b'a\n\xc3', b'\xc3\x28', b'a,b\n1,2\n\xe4\xb8', b'\xed\xa0\x80', b'\xf8\x88\x80\x80\x80', b'a,b\n' + BOM + b'1,2\n', b'"' + BOM + b'"\n',
                b'a' + BOM, BOM + b'"a\nb"\n', BOM + b'#c\n' + BOM + b'x\n', b'\xc0\xaf', b'ok\n\x80']
    for data in specials:
        for pol, dlm in READER_DIALECTS[:3]:
            for enc in ('utf-8', 'latin-1'):
                for mode in ('stream', 'bulk'):
                    c = reader_cfg(pol, dlm, '#', enc, False, mode)
                    c['hex'] = data.hex()
                    cases.append(c)
    return cases


# ------------------------------------------------------------------------------------------------ part 3: writers and the cross-implementation round trip
WRITER_DIALECTS = [('simple', ','), ('simple', '\t'), ('quoted', ','), ('quoted', ';'), ('quoted', ' '), ('quoted_rfc', ','), ('quoted_rfc', '|'), ('whitespace', ' '), ('monocolumn', '')]
_crlf_rgx = re.compile('\r\n|\r')


def representable(table, policy, dlm, enc):
    """the dialect can represent the table (the property's own predicate; see also C10): no CR/LF outside quoted_rfc, no delimiter in
    unquoted fields, non-empty space-free fields for whitespace, one field per record for monocolumn, no leading BOM character"""
    for rec in table:
        if len(rec) < 1:
            return False
        if policy == 'monocolumn' and len(rec) != 1:
            return False
        for f in rec:
            if not isinstance(f, str):
                return False
            if policy != 'quoted_rfc' and ('\n' in f or '\r' in f):
                return False
            if policy in ('simple', 'whitespace') and dlm in f:
                return False
            if policy == 'whitespace' and (f == '' or ' ' in f):
                return False
    if table and table[0]:
        first = table[0][0]
        if first.startswith('\ufeff') or (enc == 'latin-1' and first.startswith('\xef\xbb\xbf')):
            return False
    return True


def read_back_expectation(table, policy):
    if policy == 'quoted_rfc':
        return [[_crlf_rgx.sub('\n', f) for f in rec] for rec in table]     # line breaks inside fields are normalised to LF
    return [list(rec) for rec in table]


def py_write_case(rbql_csv, c):
    res = {'error': None, 'error_kind': None, 'hex': None, 'warnings': None}
    try:
        out = io.BytesIO()
        if c.get('line_separator') is None:
            w = rbql_csv.CSVWriter(out, False, c['enc'], c['dlm'], c['policy'])
        else:
            w = rbql_csv.CSVWriter(out, False, c['enc'], c['dlm'], c['policy'], c['line_separator'])
        if c.get('header') is not None:
            w.set_header(list(c['header']))
        for rec in c['table']:
            w.write(list(rec))
        w.finish()
        res['hex'] = out.getvalue().hex()
        res['warnings'] = sorted(classify(x) for x in w.get_warnings())
    except Exception as e:
        res = {'error': type(e).__name__, 'error_kind': classify(e), 'hex': None, 'warnings': None}
    return res


def writer_cases(rnd, tier):
    quick = tier == 'quick'
    cases = []
    for policy, dlm in WRITER_DIALECTS:
        letters = dedupe(['a', '"', dlm if dlm else ',', ' ', '\n', '\r'])
        fields = list(words(letters, 2))
        tables = [[[f]] for f in words(letters, 3 if quick else 4)]
        tables += [[[f, g]] for f in fields for g in fields]
        tables.append([])
        for _ in range(300 if quick else 2000):
            width = rnd.randint(1, 3)
            tables.append([[rnd.choice(fields) for _ in range(width if rnd.random() < 0.8 else rnd.randint(1, 3))] for _ in range(rnd.randint(2, 3))])
        for t in tables:
            cases.append({'table': t, 'header': None, 'enc': 'utf-8', 'dlm': dlm, 'policy': policy, 'line_separator': None})
        # line separator, header, None fields, unicode, latin-1
        uni = ['a', 'b c', '', '"', 'é', 'ß"', '中,文', '\U0001F600', 'x\ny', 'p\r\nq', ' lead', 'trail ', '""', 'a' + (dlm or ','), 'tab\there', "it's", '#c', 'ÿ', '\xa0']
        for _ in range(150 if quick else 1000):
            width = rnd.randint(1, 3)
            enc = rnd.choice(['utf-8', 'utf-8', 'latin-1'])
            pool = [u for u in uni if enc == 'utf-8' or all(ord(ch) < 256 for ch in u)]
            t = [[rnd.choice(pool) for _ in range(width)] for _ in range(rnd.randint(1, 3))]
            if rnd.random() < 0.15:
                t[rnd.randrange(len(t))][rnd.randrange(width)] = None
            hdr = None
            if rnd.random() < 0.3:
                hdr = ['h%d' % i for i in range(width if rnd.random() < 0.8 else width + 1)]
            cases.append({'table': t, 'header': hdr, 'enc': enc, 'dlm': dlm, 'policy': policy, 'line_separator': rnd.choice([None, '\n', '\r\n'])})
    return cases


def writer_key(c, aspect):
    return 'writer:%s:dlm=%s:%s' % (c['policy'], dname(c['dlm']), aspect)


def roundtrip_key(direction, c, aspect):
    return 'roundtrip:%s:%s:dlm=%s:%s' % (direction, c['policy'], dname(c['dlm']), aspect)


def check_read_back(direction, c, written_hex, res, add_fail):
    """res: reader result (python or js view) of the bytes written by the other implementation"""
    table = ([list(c['header'])] if c.get('header') is not None else []) + [list(r) for r in c['table']]
    exp = read_back_expectation(table, c['policy'])
    aspect = None
    if res['error'] is not None:
        aspect = 'reader-error'
    elif res['records'] != exp:
        aspect = 'records'
    elif any(w.split(':')[0] in ('quoting', 'bom') for w in res['warnings']):
        aspect = 'warnings'
    if aspect is not None:
        add_fail({'replay': 'c18', 'kind': 'roundtrip', 'direction': direction, 'key': roundtrip_key(direction, c, aspect), 'case': c, 'written_bytes': repr(bytes.fromhex(written_hex)),
                  'expected': {'records': exp, 'warnings': 'no quoting/BOM warning', 'error': None}, 'observed': reader_view(res)})


def writer_compare(rbql_csv, cases, py_written, js_written, js_read_of_py, add_fail):
    """py_written[i] / js_written[i]: writer results; js_read_of_py: {index: js reader result of the python-written bytes}"""
    n = 0
    for i, c in enumerate(cases):
        p, j = py_written[i], js_written[i]
        n += 1
        aspect = None
        if (p['error'] is None) != (j['error'] is None):
            aspect = 'error-vs-no-error'
        elif p['error'] is None:
            if p['hex'] != j['hex']:
                aspect = 'bytes'
            elif p['warnings'] != j['warnings']:
                aspect = 'warnings[%s]' % ','.join(sorted(set(w.split(':')[0] for w in set(p['warnings']) ^ set(j['warnings']))))
        if aspect is not None:
            view = lambda r: {'error': r['error'], 'error_kind': r['error_kind'], 'warnings': r['warnings'], 'bytes': None if r['hex'] is None else repr(bytes.fromhex(r['hex']))}
            add_fail({'replay': 'c18', 'kind': 'writer', 'key': writer_key(c, aspect), 'case': c, 'expected': 'python and javascript writers produce the same bytes, warning kinds and error/no error',
                      'observed': {'python': view(p), 'js': view(j)}})
        full = ([c['header']] if c.get('header') is not None else []) + c['table']
        if c.get('header') is not None and any(len(r) != len(c['header']) for r in c['table']):
            continue
        if not representable(full, c['policy'], c['dlm'], c['enc']):
            continue
        for direction, wres in (('py-writes-js-reads', p), ('js-writes-py-reads', j)):
            if wres['error'] is not None:
                add_fail({'replay': 'c18', 'kind': 'roundtrip', 'direction': direction, 'key': roundtrip_key(direction, c, 'writer-error'), 'case': c,
                          'expected': 'a representable table is written without error', 'observed': {'error': wres['error'], 'error_kind': wres['error_kind']}})
                continue
            n += 1
            if direction == 'py-writes-js-reads':
                res = js_read_of_py.get(i)
                if res is None:
                    continue
            else:
                res = py_read_case(rbql_csv, bytes.fromhex(wres['hex']), c['enc'], c['dlm'], c['policy'], False, None)
            check_read_back(direction, c, wres['hex'], res, add_fail)
    return n


# ------------------------------------------------------------------------------------------------ part 4: output header of a select list
H_INPUT = [['1', 'xa', 'p q'], ['2', 'ya', 'r']]
H_NAMES = ['id', 'name', 'val']
H_JOIN = [['1', 'k1'], ['2', 'k2']]
H_JOIN_NAMES = ['id', 'code']
ITEMS_PLAIN = ['a1', 'a2', 'a3', 'a[1]', 'a[3]', '*', 'a.*', 'NR', 'NF', 'a1 + a2', 'a1 + "x"', '"lit"', "'s'", '1', 'NR + 1', '(a1)', 'a1 == a2', '[a1, a2]', 'a2.split("a")',
               'a2.split("a")[0]', 'a1 + "("', '"a,b"', 'a1 as x1', 'a2 + a1 as s', 'NR as n', 'a[2] as z', '"lit" as lt', 'a3 AS Cap_9', '(a1 + a2) as par']
ITEMS_NAMED = ['a.name as nm', 'a["val"] as v', 'a.name + a.val', 'a.val AS w']
ITEMS_JOIN = ['b1', 'b2', 'b.*', 'b[2]', 'b1 + a1', 'b2 as bb']
ITEMS_JOIN_NAMED = ['b.code as bc', 'b.code + a.name']
WHOLE_QUERIES = ['select distinct a1', 'select top 1 a1, a2', 'select distinct count a1', 'select * except a1', 'select * except a2, a3', 'update set a1 = "x"', 'update a2 = a1',
                 'select a2, COUNT(*) group by a2', 'select a2, COUNT(*) as cnt group by a2', 'select MAX(a1), MIN(a1)', 'select COUNT(a1) as c', 'select a1, a2 order by a1 desc',
                 'select a1, a2 from a where a1 == "1"', 'select a1 where NR > 1', 'select a1, * limit 1', 'SELECT a1 AS up, a2', 'select  a1 ,a2,  a3', 'select a1,a2 as k,*',
                 'select COUNT(*)', 'select COUNT(*), a2 group by a2', 'select distinct a2 as d', 'select top 1 *', 'select a1 as x, a1 as x']
WHOLE_QUERIES_NAMED = ['select * except a.name', 'select a.name, COUNT(*) group by a.name', 'select a.name, MAX(a.id) as top_id group by a.name', 'update set a.name = "x"',
                       'select distinct a.val', 'select a["name"], a.id order by a.id']


# (input column names, join column names): identifiers; a blank header cell; spaces / non-ASCII / a name that looks like a default name; duplicates and digits
HEADER_SETS = [(['id', 'name', 'val'], ['id', 'code']), (['id', '', 'val'], ['', 'code']), (['a b', '\xdcn\xef', 'col1'], ['x y', '\u2116']), (['name', 'name', '0'], ['k', 'k'])]


def named_items(names, prefix):
    """select items that address columns by name, in syntax valid in both languages"""
    items = []
    for nm in dedupe(names):
        if re.match(r'^[_a-zA-Z][_a-zA-Z0-9]*$', nm):
            items += ['%s.%s' % (prefix, nm), '%s.%s as al_%s' % (prefix, nm, prefix)]
        if nm and not re.search(r'["\'\\]', nm):
            items += ['%s["%s"]' % (prefix, nm), "%s['%s']" % (prefix, nm)]
    return items


def header_cases(rnd, tier):
    quick = tier == 'quick'
    cases = []

    def add(q, names, jnames, with_join):
        cases.append({'query': q + (' join b on a1 == b1' if with_join and ' join ' not in q else ''), 'input_table': H_INPUT, 'join_table': H_JOIN if with_join else None,
                      'input_names': names, 'join_names': jnames if (names is not None and with_join) else None})

    for si, (names, jnames) in enumerate([(None, None)] + HEADER_SETS):
        main = si <= 1          # no names, and the first set of names: every pair; the other sets: a seeded subset
        for with_join in (False, True):
            pool = list(ITEMS_PLAIN)
            if with_join:
                pool += ITEMS_JOIN
            if names is not None:
                pool += named_items(names, 'a')
                if names == H_NAMES:
                    pool += ITEMS_NAMED
                if with_join:
                    pool += named_items(jnames, 'b')
                    if jnames == H_JOIN_NAMES:
                        pool += ITEMS_JOIN_NAMED
            pool = dedupe(pool)
            for it in pool:
                add('select ' + it, names, jnames, with_join)
            pairs = [(x, y) for x in pool for y in pool]
            if quick or with_join or not main:
                rnd.shuffle(pairs)
                pairs = pairs[:((400 if main else 150) if quick else (1200 if main else 500))]
            for x, y in pairs:
                add('select %s, %s' % (x, y), names, jnames, with_join)
            hashable = [it for it in pool if it not in ('[a1, a2]', 'a2.split("a")')]     # DISTINCT needs hashable values in Python
            for _ in range((120 if main else 50) if quick else (1000 if main else 400)):
                k = rnd.randint(3, 5)
                sep = rnd.choice([', ', ',', ' , ', ',  '])
                prefix = rnd.choice(['select ', 'SELECT ', 'select distinct ', 'select top 2 '])
                src = hashable if 'distinct' in prefix else pool
                add(prefix + sep.join(rnd.choice(src) for _ in range(k)) + rnd.choice(['', '', ' where NR >= 1', ' order by a1', ' limit 5']), names, jnames, with_join)
        for q in WHOLE_QUERIES + (WHOLE_QUERIES_NAMED if names == H_NAMES else []):
            add(q, names, jnames, False)
    return cases


def py_header_case(eng, c):
    r = {'error': None, 'message': None, 'header': None, 'width': None}
    try:
        out, names = [], []
        eng.query_table(c['query'], [list(x) for x in c['input_table']], out, [], None if c['join_table'] is None else [list(x) for x in c['join_table']],
                        None if c['input_names'] is None else list(c['input_names']), None if c['join_names'] is None else list(c['join_names']), names)
        r['header'] = list(names)
        r['width'] = len(out[0]) if out else None
    except Exception as e:
        r['error'] = type(e).__name__
        r['message'] = str(e)[:300]
    return r


_item_class_rgx = [(r'^\(.*\)$', 'parenthesised'), (r' (as|AS) ', 'alias'), (r'^[ab]\[[0-9]+\]$', 'index-subscript'), (r'^[ab]\[["\']', 'name-subscript'), (r'^[ab]\.\*$|^\*$', 'star'),
                   (r'^[ab]\.[a-z_]+$', 'attribute'), (r'^[ab][0-9]+$', 'field'), (r'^(NR|NF)$', 'builtin'), (r'^["\'0-9]', 'literal')]


def split_select_items(query):
    """the select items of a generated query (string literals and brackets respected) or None"""
    m = re.match(r'(?i)^select (?:distinct count |distinct |top [0-9]+ )?(.*?)(?: join .*| where .*| order by .*| limit .*| group by .*)?$', query)
    if not m:
        return None
    depth, cur, items, quote = 0, '', [], None
    for ch in m.group(1):
        if quote is not None:
            cur += ch
            if ch == quote:
                quote = None
            continue
        if ch in '"\'':
            quote = ch
        elif ch in '([{':
            depth += 1
        elif ch in ')]}':
            depth -= 1
        if ch == ',' and depth == 0:
            items.append(cur.strip())
            cur = ''
        else:
            cur += ch
    items.append(cur.strip())
    return items


def header_key(c, p, j):
    mode = ('names' if c['input_names'] is not None else 'nonames') + ('+join' if c['join_table'] is not None else '')
    if (p['error'] is None) != (j['error'] is None):
        return 'header:%s:error-vs-no-error:%s' % (mode, 'js-only' if j['error'] else 'python-only')
    ph, jh = p['header'] or [], j['header'] or []
    if len(ph) != len(jh):
        return 'header:%s:length' % mode
    # name the class of the first select item whose name differs (a star stands for as many names as the tables have columns)
    cls = 'other'
    items = split_select_items(c['query'])
    if items is not None:
        na = len(c['input_names'] or [])
        nb = len(c['join_names'] or [])
        owners = []
        for it in items:
            owners += [it] * ({'*': na + nb, 'a.*': na, 'b.*': nb}.get(it, 1))
        if len(owners) == len(ph):
            for it, a, b in zip(owners, ph, jh):
                if a != b:
                    cls = 'expression'
                    for rgx, name in _item_class_rgx:
                        if re.search(rgx, it):
                            cls = name
                            break
                    break
    return 'header:name-of:%s' % cls


def header_compare(eng, cases, js_results, add_fail, py_results=None):
    if py_results is None:
        py_results = [py_header_case(eng, c) for c in cases]
    for c, j, p in zip(cases, js_results, py_results):
        if p['error'] is not None and j['error'] is not None:
            continue
        if p['error'] is None and j['error'] is None and p['header'] == j['header']:
            continue
        add_fail({'replay': 'c18', 'kind': 'header', 'key': header_key(c, p, j), 'case': c, 'expected': 'python and javascript derive the same output header (or both reject the query)',
                  'observed': {'python': {'error': p['error'], 'message': p['message'], 'header': p['header']}, 'js': {'error': j['error'], 'message': j['message'], 'header': j['header']}}})
    return len(cases)


# ------------------------------------------------------------------------------------------------ the job
class FailSink(object):
    def __init__(self, limit):
        self.limit = limit
        self.items = []
        self.keys = set()
        self.suppressed = 0

    def full(self):
        return len(self.items) >= self.limit

    def add(self, f):
        if f['key'] in self.keys or self.full():
            self.suppressed += 1
            return
        self.keys.add(f['key'])
        self.items.append(f)


@job('C18')
def py_js_csv_dialect_and_headers(prop, tier, seed):
    rbql, eng = load_rbql()
    from rbql import rbql_csv, csv_utils as cu
    assert cu.__file__.startswith(os.path.join(REPO, 'rbql-py')), cu.__file__
    rnd = random.Random(seed)
    quick = tier == 'quick'
    sinks = {k: FailSink(MAX_FAILS) for k in ('fn', 'reader', 'writer', 'header')}
    counts = {'fn': 0, 'reader': 0, 'writer': 0, 'header': 0}
    ctx = NodeCtx()
    try:
        # ---- build every case first (python side of the writers included: the JS reader is fed the python-written bytes)
        fn_ops = fn_plan(tier)
        fn_rand = fn_random_cases(rnd, 3000 if quick else 20000)
        rd_ops = reader_plan(tier)
        rd_rand = reader_random_cases(rnd, tier)
        wr_cases = writer_cases(rnd, tier)
        py_written = [py_write_case(rbql_csv, c) for c in wr_cases]
        rt_index, rt_cases = [], []
        for i, (c, p) in enumerate(zip(wr_cases, py_written)):
            full = ([c['header']] if c.get('header') is not None else []) + c['table']
            if p['error'] is None and representable(full, c['policy'], c['dlm'], c['enc']) and not (c.get('header') is not None and any(len(r) != len(c['header']) for r in c['table'])):
                rc = reader_cfg(c['policy'], c['dlm'], None, c['enc'], False, 'stream' if i % 7 else 'bulk')
                rc['hex'] = p['hex']
                rt_index.append(i)
                rt_cases.append(rc)
        hd_cases = header_cases(rnd, tier)
        ops = [dict((k, v) for k, v in o.items() if k != 'tag') for o in fn_ops]
        ops.append({'op': 'fn_list', 'cases': fn_rand})
        ops += [dict((k, v) for k, v in o.items() if k != 'tag') for o in rd_ops]
        ops.append({'op': 'reader_list', 'cases': rd_rand})
        ops.append({'op': 'writer_list', 'cases': wr_cases})
        ops.append({'op': 'reader_list', 'cases': rt_cases})
        ops.append({'op': 'header_list', 'cases': hd_cases})
        t_build = time.time()
        handle = start_node(ctx, ops)
        try:
            # ---- python side, while node works
            py_fn_digs = [fn_py_enum(cu, o) for o in fn_ops]
            py_fn_rand = fn_py_list(cu, fn_rand)
            py_rd_digs = [reader_py_enum(rbql_csv, o) for o in rd_ops]
            py_rd_rand = [reader_py_case(rbql_csv, c) for c in rd_rand]
            py_hdr = [py_header_case(eng, c) for c in hd_cases]
        except BaseException:
            handle[0].kill()
            handle[0].wait()
            handle[3].close()
            raise
        t_py = time.time()
        res = finish_node(ctx, handle, 110 if quick else 400)
        t_node = time.time()
        fn_pin, rd_pin = [], []
        k = 0
        k_fn_rand = k_rd_rand = None
        for o, pd in zip(fn_ops, py_fn_digs):
            counts['fn'] += fn_compare_enum(o, pd, res[k], sinks['fn'].add, fn_pin)
            k += 1
        k_fn_rand = k
        k += 1
        for o, pd in zip(rd_ops, py_rd_digs):
            counts['reader'] += reader_compare_enum(o, pd, res[k], sinks['reader'].add, rd_pin)
            k += 1
        k_rd_rand = k
        k += 1
        # ---- blocks whose digests differ: case by case (reported before the seeded cases: their keys do not depend on the seed)
        if fn_pin or rd_pin:
            res2 = ctx_run_sync(ctx, [{'op': 'fn_list', 'cases': fn_pin}, {'op': 'reader_list', 'cases': rd_pin}], 200)
            fn_compare_list(cu, fn_pin, res2[0]['results'], sinks['fn'].add)
            for c, j in zip(rd_pin, res2[1]['results']):
                reader_compare_case(rbql_csv, c, j, sinks['reader'].add)
            if fn_pin and not sinks['fn'].items:
                sinks['fn'].add({'replay': 'none', 'key': 'fn:digest-mismatch-not-reproduced', 'expected': 'block digests agree', 'observed': '%d cases in differing blocks, none differs case by case' % len(fn_pin)})
            if rd_pin and not sinks['reader'].items:
                sinks['reader'].add({'replay': 'none', 'key': 'reader:digest-mismatch-not-reproduced', 'expected': 'block digests agree', 'observed': '%d cases in differing blocks, none differs case by case' % len(rd_pin)})
        counts['fn'] += fn_compare_list(cu, fn_rand, res[k_fn_rand]['results'], sinks['fn'].add, py_fn_rand)
        for c, j, pr in zip(rd_rand, res[k_rd_rand]['results'], py_rd_rand):
            reader_compare_case(rbql_csv, c, j, sinks['reader'].add, pr)
        counts['reader'] += len(rd_rand)
        js_written = res[k]['results']
        k += 1
        js_read_of_py = dict(zip(rt_index, res[k]['results']))
        k += 1
        counts['writer'] += writer_compare(rbql_csv, wr_cases, py_written, js_written, js_read_of_py, sinks['writer'].add)
        counts['header'] += header_compare(eng, hd_cases, res[k]['results'], sinks['header'].add, py_hdr)
    finally:
        ctx.close()
    fails = []
    for kname in ('fn', 'reader', 'writer', 'header'):
        fails += sinks[kname].items
    total = sum(counts.values())
    l_split, l_quote, l_main, l_bom = (6, 6, 5, 3) if quick else (8, 7, 6, 4)
    rule = ('python vs javascript (node driver requiring %s/*.js), same inputs: (1) csv_utils EXHAUSTIVE: smart_split (5 policies x preserve on/off), split_quoted_str, '
            'split_whitespace_separated_str, unquote_field(s) on all lines of length <= %d over {a, ", delimiter, space} for delimiters , ; TAB SPACE | and "::"; quote_field / rfc_quote_field / '
            'unquote_field on all strings of length <= %d over {a, ", delimiter, space, LF, CR}; split_quoted_str / whitespace split with LF in the alphabet up to length %d; + %d seeded Unicode '
            'calls. (2) readers EXHAUSTIVE: every file of length <= %d over {a, ", comma, space, LF, CR, #} x {simple, quoted, quoted_rfc (comma), whitespace (space), monocolumn} x comment prefix '
            '{none, #} (utf-8, JS stream mode)%s; length <= %d additionally with header mode, latin-1 and Python reading the decoded text (StringIO, encoding None); every BOM-prefixed file of length <= 3+%d in stream and bulk mode, utf-8 and latin-1; + %d '
            'seeded longer / Unicode / chunked / bulk / invalid-UTF-8 files (length 6-9 quick, 7-12 thorough: NOT exhaustive). Compared: header, records, warning kinds with their numbers, '
            'error class and kind. (3) %d tables (all one-record tables of 1 field of length <= %d and of 2 fields of length <= 2 over {a, ", delimiter, space, LF, CR} x 9 dialects, + seeded '
            'multi-record / Unicode / None / header / CRLF tables): both writers give the same bytes and warning kinds; every representable table written by one side is read back as that table '
            '(CR/CRLF -> LF inside quoted_rfc fields) by the other side. (4) %d queries: select lists of 1 item (all), 2 items (all pairs, or a seeded subset) and 3-5 items (seeded) from %d '
            'language-neutral items (+ by-name items built from the column names), x no names / 4 sets of column names (identifiers; a blank name; spaces, non-ASCII, col1; duplicates) x join / no join, + %d whole queries (distinct, top, except, update, aggregates): same output_column_names or both reject.'
            % (REPO_JS, l_split, l_quote, l_quote if quick else 7, len(fn_rand), l_main, '' if quick else ', quoted_rfc with comment prefix # also for length <= %d' % (l_main + 1), l_main - 1, l_bom, len(rd_rand), len(wr_cases), 3 if quick else 4, len(hd_cases),
               len(ITEMS_PLAIN) + len(ITEMS_NAMED) + len(ITEMS_JOIN) + len(ITEMS_JOIN_NAMED), len(WHOLE_QUERIES) + len(WHOLE_QUERIES_NAMED)))
    return {'job': 'py_js_csv_dialect_and_headers', 'evaluations': total, 'distinct_nontrivial': total, 'exhaustive': False, 'rule': rule,
            'failures': fails, 'samples': ['smart_split(\'"a"" ,a\', \',\', \'quoted\', False)', 'file b\'"a\\n#,"\\r\' quoted_rfc comment prefix #', hd_cases[40]['query'], hd_cases[-1]['query']],
            'counts': counts, 'node_launches': ctx.launches, 'timing_s': {'python_side': round(t_py - t_build, 1), 'extra_wait_for_node': round(t_node - t_py, 1)}, 'suppressed_duplicate_failures': sum(s.suppressed for s in sinks.values()),
            'assumptions': ['node %s executes the tree\'s JavaScript as a user\'s node would' % 'v20', 'JS encoding name "binary" corresponds to Python "latin-1" (as in query_csv of rbql_csv.js)',
                            'the JS reader is driven through a real stream.Readable delivering the file as one chunk (chunk partitions belong to C20), or through csv_path (bulk mode)',
                            'seeded parts (longer files, Unicode, multi-record tables, 3-5 item select lists) are samples, not exhaustive']}


def ctx_run_sync(ctx, ops, timeout):
    return finish_node(ctx, start_node(ctx, ops), timeout)


# ------------------------------------------------------------------------------------------------ replay
def replay_c18(case):
    rbql, eng = load_rbql()
    from rbql import rbql_csv, csv_utils as cu
    kind = case.get('kind')
    sink = FailSink(10)
    ctx = NodeCtx()
    try:
        if kind == 'fn':
            c = [case['fn'], case['input'], case['delim'], case['policy'], case['preserve_quotes_and_whitespaces']]
            res = ctx_run_sync(ctx, [{'op': 'fn_list', 'cases': [c]}], 60)
            fn_compare_list(cu, [c], res[0]['results'], sink.add)
        elif kind == 'reader':
            c = {k: case[k] for k in ('hex', 'enc', 'dlm', 'policy', 'has_header', 'comment_prefix', 'mode', 'py_text') if k in case}
            if case.get('cuts'):
                c['cuts'] = case['cuts']
            res = ctx_run_sync(ctx, [{'op': 'reader_list', 'cases': [c]}], 60)
            reader_compare_case(rbql_csv, c, res[0]['results'][0], sink.add)
        elif kind in ('writer', 'roundtrip'):
            c = case['case']
            p = py_write_case(rbql_csv, c)
            rt_cases = []
            if p['error'] is None:
                rc = reader_cfg(c['policy'], c['dlm'], None, c['enc'], False, 'stream')
                rc['hex'] = p['hex']
                rt_cases.append(rc)
            res = ctx_run_sync(ctx, [{'op': 'writer_list', 'cases': [c]}, {'op': 'reader_list', 'cases': rt_cases}], 60)
            writer_compare(rbql_csv, [c], [p], res[0]['results'], dict(zip([0], res[1]['results'])), sink.add)
            if kind == 'writer':
                sink.items = [f for f in sink.items if f['kind'] == 'writer']
            else:
                sink.items = [f for f in sink.items if f['kind'] == 'roundtrip' and f.get('direction') == case.get('direction')]
        elif kind == 'header':
            c = case['case']
            res = ctx_run_sync(ctx, [{'op': 'header_list', 'cases': [c]}], 60)
            header_compare(eng, [c], res[0]['results'], sink.add)
        else:
            return {'fails': True, 'expected': case.get('expected'), 'observed': 'unknown case kind %r' % kind}
    finally:
        ctx.close()
    if sink.items:
        f = sink.items[0]
        return {'fails': True, 'key': f['key'], 'expected': f['expected'], 'observed': f['observed']}
    return {'fails': False, 'expected': case.get('expected'), 'observed': 'python and javascript agree / the table is read back as written'}
