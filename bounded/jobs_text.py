"""BOUNDED jobs for text-level functions: LIKE (C17: the regex-engine half is an assumption about Python's re,
validated here), re.escape (A-RE-escape)."""
import itertools
import random
import re

from .registry import job
from .refsem import load_rbql

ALPHA = ['a', 'b', '%', '_', '.', '*', '\\', '[', '(', '^', '$', '+', '?', '|']


def likematch(p, t):
    """SQL LIKE: % any (possibly empty) sequence, _ exactly one character, anything else itself; whole text"""
    n, m = len(p), len(t)
    dp = [[False] * (m + 1) for _ in range(n + 1)]
    dp[0][0] = True
    for i in range(1, n + 1):
        c = p[i - 1]
        for j in range(0, m + 1):
            if c == '%':
                dp[i][j] = dp[i - 1][j] or (j > 0 and dp[i][j - 1])
            elif j > 0 and (c == '_' or c == t[j - 1]):
                dp[i][j] = dp[i - 1][j - 1]
    return dp[n][m]


def words(alpha, maxlen):
    for n in range(maxlen + 1):
        for w in itertools.product(alpha, repeat=n):
            yield ''.join(w)


@job('C17')
def like_semantics(prop, tier, seed):
    rbql, eng = load_rbql()
    # quick: patterns <= 3 x texts <= 2 (0.6 M pairs); thorough: patterns <= 3 x texts <= 3 (8.7 M pairs) -- patterns <= 4 x texts <= 3
    # would be 121 M engine evaluations (hours)
    pl, tl = (3, 2) if tier == 'quick' else (3, 3)
    pats = list(words(ALPHA, pl))
    texts = list(words(ALPHA, tl))
    rnd = random.Random(seed)
    # plus seeded longer unicode pairs
    uni = ['a', 'b', '%', '_', '.', 'é', '中', '$', '\\', ' ']
    extra = [(''.join(rnd.choice(uni) for _ in range(rnd.randint(0, 9))), ''.join(rnd.choice(uni) for _ in range(rnd.randint(0, 7)))) for _ in range(3000)]
    fails = []
    n_eval = 0
    # (a) code -> regex string: like_to_regex(p) == '^' + tok(c1)... + '$'
    for p in pats:
        want = '^' + ''.join('.' if c == '_' else ('.*' if c == '%' else re.escape(c)) for c in p) + '$'
        got = eng.like_to_regex(p)
        n_eval += 1
        if got != want:
            fails.append({'replay': 'like_regex', 'key': 'regex:' + p, 'pattern': p, 'expected': want, 'observed': got})
            break
    # (b) whole LIKE through the engine: one query over all (text, pattern) pairs, chunked
    pairs = [(t, p) for p in pats for t in texts] + extra
    chunk = 50000
    for k in range(0, len(pairs), chunk):
        if fails:
            break
        part = pairs[k:k + chunk]
        table = [[t, p] for t, p in part]
        out = []
        try:
            eng.query_table('select like(a1, a2)', table, out, [])
        except Exception as e:
            fails.append({'replay': 'like', 'key': 'like-error', 'expected': 'no error', 'observed': repr(e), 'text': None, 'pattern': None})
            break
        n_eval += len(part)
        for (t, p), r in zip(part, out):
            if r[0] != likematch(p, t):
                fails.append({'replay': 'like', 'key': 'like:%r:%r' % (t, p), 'text': t, 'pattern': p, 'expected': likematch(p, t), 'observed': r[0]})
                if len(fails) >= 5:
                    break
    # (c) A-RE-escape: homomorphism of re.escape on the alphabet
    for a in words(ALPHA + ['é', ' '], 2):
        for b in words(ALPHA + ['é', ' '], 1):
            n_eval += 1
            if re.escape(a + b) != re.escape(a) + re.escape(b):
                fails.append({'replay': 'none', 'key': 're.escape', 'expected': 'homomorphism', 'observed': (a, b)})
    return {'job': 'like_semantics', 'evaluations': n_eval, 'distinct_nontrivial': len(pats), 'exhaustive': True,
            'rule': 'all patterns of length <= %d x all single-line texts of length <= %d over %d characters (exhaustive) + 3000 seeded unicode pairs: real like() through query_table vs the recursive LIKE definition; like_to_regex vs the token map; re.escape homomorphism' % (pl, tl, len(ALPHA)),
            'failures': fails, 'samples': [pats[17], pats[200]],
            'assumptions': ['A-RE: Python re implements the token regex as LIKE on single-line texts (validated boundedly by this job, not proved)']}


def replay_like(case):
    rbql, eng = load_rbql()
    out = []
    eng.query_table('select like(a1, a2)', [[case['text'], case['pattern']]], out, [])
    exp = likematch(case['pattern'], case['text'])
    return {'fails': out[0][0] != exp, 'text': case['text'], 'pattern': case['pattern'], 'expected': exp, 'observed': out[0][0]}


def replay_like_regex(case):
    rbql, eng = load_rbql()
    p = case['pattern']
    want = '^' + ''.join('.' if c == '_' else ('.*' if c == '%' else re.escape(c)) for c in p) + '$'
    got = eng.like_to_regex(p)
    return {'fails': got != want, 'pattern': p, 'expected': want, 'observed': got}
