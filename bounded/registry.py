"""Bounded jobs per property.  Every job is labelled BOUNDED in the evidence (bound + rule stated) and
is never counted as a discharged obligation."""
import json
import os
import sys
import time
import traceback

JOBS = {}
EXTRA_MODULES = ('jobs_csv', 'jobs_text', 'jobs_deps', 'jobs_misc', 'jobs_c08', 'jobs_c13', 'jobs_c14', 'jobs_c15', 'jobs_c16', 'jobs_c18', 'jobs_c19', 'jobs_c20', 'jobs_extra', 'jobs_adapters')


def job(*props):
    def deco(f):
        for p in props:
            JOBS.setdefault(p, []).append(f)
        return f
    return deco


def _load_all():
    from . import jobs_rel   # noqa: F401
    for m in EXTRA_MODULES:
        try:
            __import__('bounded.' + m)
        except ImportError as e:
            if m not in str(e):
                raise


def run_jobs(prop, tier, seed):
    _load_all()
    out = []
    for f in JOBS.get(prop, []):
        t0 = time.time()
        try:
            r = f(prop, tier, seed)
        except Exception:
            r = {'job': f.__name__, 'evaluations': 0, 'distinct_nontrivial': 0, 'failures': [
                {'key': 'job-crash', 'error': traceback.format_exc()[-1500:]}], 'rule': 'crashed'}
        r.setdefault('job', f.__name__)
        r['wall_s'] = round(time.time() - t0, 2)
        r['label'] = 'bounded'
        out.append(r)
    return out


def replay(path):
    """re-run one recorded failing case on the current tree: exit 1 if it still fails, 0 if it passes"""
    _load_all()
    rec = json.load(open(path))
    if rec.get('kind') == 'obligation':
        print('replay of obligation %s: verifier output recorded, re-run ./check %s' % (rec['obligation'], rec['property']))
        print(json.dumps(rec.get('verifier_output'), indent=1)[:3000])
        cases = rec.get('failing_inputs_from_bounded_search') or []
        if not cases:
            return 1
        rc = 0
        for c in cases:
            rc = max(rc, replay_case(c))
        return rc
    return replay_case(rec['case'])


def replay_case(case):
    from . import jobs_rel
    mods = [jobs_rel]
    for m in EXTRA_MODULES:
        try:
            mods.append(__import__('bounded.' + m, fromlist=['x']))
        except ImportError:
            pass
    kind = case.get('replay')
    for m in mods:
        f = getattr(m, 'replay_' + str(kind), None)
        if f is not None:
            res = f(case)
            print(json.dumps(res, indent=1, default=lambda o: '<%s object>' % type(o).__name__)[:3000])
            if res.get('fails'):
                print('REPLAY: still fails on the current tree')
                return 1
            print('REPLAY: passes on the current tree')
            return 0
    print('no replay function for %r' % kind)
    return 1
