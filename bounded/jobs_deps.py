"""BOUNDED validation of the assumed contracts of Python builtins (A-SORT): the contracts in contracts/builtins.py and
contracts/engine_writers.py (sorted.keyset) are checked against the real sorted() on enumerated inputs.  Never counted as proved."""
import itertools
import random

from .registry import job


def _ins_sort_stable(xs, key):
    out = []
    for x in xs:
        i = len(out)
        while i > 0 and key(out[i - 1]) > key(x):
            i -= 1
        out.insert(i, x)
    return out


@job('C02', 'C03', 'C14', 'C01', 'C07')
def sorted_contracts(prop, tier, seed):
    fails = []
    n = 0
    rnd = random.Random(seed)
    # sorted(entries, key=lambda x: x[0]) is the stable insertion-sort permutation (A-SORT, SortedWriter)
    keys = [(1,), (2,), (1, 'b'), ('a',), ('b',), ('a', 1)]
    L = 4 if tier == 'quick' else 5
    for ln in range(L + 1):
        for ks in itertools.product([0, 1, 2], repeat=ln):
            entries = [((k,), ['r%d' % i]) for i, k in enumerate(ks)]
            n += 1
            got = sorted(entries, key=lambda x: x[0])
            exp = _ins_sort_stable(entries, key=lambda x: x[0])
            if got != exp or any(a is not b for a, b in zip(got, exp)):
                fails.append({'replay': 'none', 'key': 'sorted.entries:%r' % (ks,), 'expected': exp, 'observed': got})
    # sorted(cells) on numbers == insertion sort (MEDIAN)
    for ln in range(L + 1):
        for xs in itertools.product([1, 2, 1.5, 2.0, -1], repeat=ln):
            n += 1
            got = sorted(list(xs))
            exp = _ins_sort_stable(list(xs), key=lambda v: v)
            if got != exp:
                fails.append({'replay': 'none', 'key': 'sorted.cells:%r' % (xs,), 'expected': exp, 'observed': got})
    # sorted(ints) == insertion sort, a new list, argument untouched (EXCEPT indices: builtins.sorted.ints)
    for ln in range(L + 1):
        for xs in itertools.product([0, 1, 2, 5], repeat=ln):
            n += 1
            arg = list(xs)
            got = sorted(arg)
            exp = _ins_sort_stable(list(xs), key=lambda v: v)
            if got != exp or got is arg or arg != list(xs):
                fails.append({'replay': 'none', 'key': 'sorted.ints:%r' % (xs,), 'expected': exp, 'observed': got})
    # sorted(d.items(), key=lambda v: v[1]): every entry once, non-decreasing by value (field-count warning)
    for trial in range(300 if tier == 'quick' else 3000):
        d = {}
        for _ in range(rnd.randint(0, 5)):
            d[rnd.randint(0, 6)] = rnd.randint(1, 9)
        n += 1
        got = sorted(d.items(), key=lambda v: v[1])
        ok = (len(got) == len(d) and all(d[k] == v for k, v in got) and len(set(k for k, _ in got)) == len(got)
              and all(got[i][1] <= got[i + 1][1] for i in range(len(got) - 1)) and set(k for k, _ in got) == set(d))
        if not ok:
            fails.append({'replay': 'none', 'key': 'sorted.items_by_value:%r' % (d,), 'expected': 'entries of d ordered by value', 'observed': got})
    # sorted(set of tuples): members once, strictly ascending (UniqCount / aggregate key order)
    for trial in range(300 if tier == 'quick' else 3000):
        s = set((rnd.choice('abc'), rnd.randint(0, 2)) for _ in range(rnd.randint(0, 6)))
        n += 1
        got = sorted(list(s))
        if set(got) != s or len(got) != len(s) or any(not (got[i] < got[i + 1]) for i in range(len(got) - 1)):
            fails.append({'replay': 'none', 'key': 'sorted.keyset:%r' % (s,), 'expected': 'members ascending', 'observed': got})
    return {'job': 'sorted_contracts', 'evaluations': n, 'distinct_nontrivial': n, 'exhaustive': False,
            'rule': 'A-SORT validation: all key sequences of length <= %d over 3 keys (stability, identity of elements), all number lists of length <= %d over 5 values, seeded dicts / tuple sets: real sorted() vs the assumed contracts' % (L, L),
            'failures': fails, 'samples': [[0, 1, 0]], 'assumptions': ['A-SORT: validated on the enumerated inputs only']}
