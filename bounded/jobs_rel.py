"""BOUNDED end-to-end jobs for the relational properties C01-C07: enumerated query x table domains,
real engine (query text -> parse -> generated code -> writers) against bounded/refsem.py.
They stand in for the text-rewriting functions (regex/parser driven) and validate A-EXEC."""
import copy
import itertools
import random

from .registry import job
from .refsem import Query, RefError, reference, run_real, load_rbql

MAX_FAIL = 5


def _cmp_case(q, A, B=None, check_sources=True, check_alias=True):
    """returns None if the real engine agrees with the reference, else a failure dict"""
    qtext = q.render()
    try:
        exp = ('ok', reference(q, A, B))
    except RefError as e:
        exp = ('error', e.kind, e.record)
    res = run_real(qtext, A, B)
    case = {'replay': 'rel', 'query': qtext, 'A': A, 'B': B, 'q': q.__dict__}
    if exp[0] == 'ok':
        if res[0] != 'ok':
            case.update(key=_key(qtext, A, B), expected=exp[1], observed='%s: %s' % (res[1], res[2]))
            return case
        if res[1] != exp[1]:
            case.update(key=_key(qtext, A, B), expected=exp[1], observed=res[1])
            return case
        A2, B2 = res[4], res[5]
    else:
        if res[0] == 'ok':
            case.update(key=_key(qtext, A, B), expected='error %s at record %s' % (exp[1], exp[2]), observed=res[1])
            return case
        want = {'runtime': 'RbqlRuntimeError', 'runtime_b': 'RbqlRuntimeError', 'parsing': 'RbqlParsingError'}[exp[1]]
        if res[1] != want:
            case.update(key=_key(qtext, A, B), expected='error class ' + want, observed='%s: %s' % (res[1], res[2]))
            return case
        if exp[1] == 'runtime' and exp[2] is not None and str(exp[2]) not in res[2]:
            case.update(key=_key(qtext, A, B), expected='message naming record %s' % exp[2], observed=res[2])
            return case
        A2, B2 = res[3], res[4]
    if check_sources:
        if A2 != A or (B is not None and B2 != B):
            case.update(key=_key(qtext, A, B), expected='sources unchanged', observed={'A': A2, 'B': B2})
            return case
    if check_alias and res[0] == 'ok':
        ids = set(id(r) for r in A2) | (set(id(r) for r in B2) if B2 else set())
        outs = res[1]
        if any(id(r) in ids for r in outs):
            case.update(key=_key(qtext, A, B), expected='output records are fresh lists', observed='an output record is an input row object')
            return case
        if len(set(id(r) for r in outs)) != len(outs):
            case.update(key=_key(qtext, A, B), expected='output records are distinct lists', observed='two output records are the same list object')
            return case
    return None


def _key(qtext, A, B):
    import hashlib
    return hashlib.sha1(repr((qtext, A, B)).encode('utf-8')).hexdigest()[:12]


def replay_rel(case):
    q = Query()
    q.__dict__.update(case['q'])
    if q.items is not None:
        q.items = [tuple(x) for x in q.items]
    if q.join is not None:
        q.join = (q.join[0], [tuple(p) for p in q.join[1]])
    if q.update is not None:
        q.update = [tuple(x) for x in q.update]
    f = _cmp_case(q, case['A'], case['B'])
    return {'fails': f is not None, 'query': case['query'], 'A': case['A'], 'B': case['B'],
            'expected': f['expected'] if f else None, 'observed': f['observed'] if f else None}


def tables(cells, max_rows, widths=(2,)):
    out = []
    rows = []
    for w in widths:
        rows.extend([list(r) for r in itertools.product(cells, repeat=w)])
    for n in range(max_rows + 1):
        for t in itertools.product(rows, repeat=n):
            out.append([list(r) for r in t])
    return out


def _run(qs_tables, rule, tier, seed, quick_cap):
    cases = list(qs_tables)
    total = len(cases)
    exhaustive = True
    if tier == 'quick' and total > quick_cap:
        rnd = random.Random(seed)
        # deterministic head (small cases first) + seeded sample of the rest
        head = cases[:quick_cap // 3]
        rest = rnd.sample(cases[quick_cap // 3:], quick_cap - len(head))
        cases = head + rest
        exhaustive = False
    fails = []
    seen_q = set()
    for q, A, B in cases:
        seen_q.add(q.render())
        f = _cmp_case(q, A, B)
        if f is not None:
            fails.append(f)
            if len(fails) >= MAX_FAIL:
                break
    return {'evaluations': len(cases), 'distinct_nontrivial': len(seen_q), 'domain_size': total, 'exhaustive': exhaustive,
            'rule': rule, 'failures': fails, 'samples': [c[0].render() for c in cases[:3]]}


# ------------------------------------------------------------------ C02
@job('C02')
def pipeline_order_distinct_top(prop, tier, seed):
    tabs = tables(['x', 'y'], 3, widths=(2,)) + [[['x', '1'], ['x', '2'], ['y', '1'], ['x', '1']],
                                                  [['b', '2'], ['a', '2'], ['b', '1'], ['a', '1'], ['b', '2']]]
    qs = []
    for order, desc in [(None, False), ('a1', False), ('a1', True), ('a2', True), ('a1, a2', False)]:
        for distinct in ['', 'distinct', 'count']:
            for n_kind, n in [(None, None)] + [(k, n) for k in ('top', 'limit') for n in (0, 1, 2, 5)]:
                for items in ([('a1', None)], [('a2', None), ('a1', None)], [('*', None)]):
                    qs.append(Query(items=items, order=order, desc=desc, distinct=distinct,
                                    top=n if n_kind == 'top' else None, limit=n if n_kind == 'limit' else None))
    cases = [(q, A, None) for A in tabs for q in qs]
    # records that are equal as text but not as values, and sort keys that are not among the selected columns
    nasty = [[[1, '5'], ['1', '3'], [1, '1'], ['1', '4']], [[None, '2'], ['None', '1'], [None, '3']], [['x', '5'], ['y', '3'], ['x', '1'], ['y', '4'], ['x', '2']]]
    nasty_qs = []
    for order, desc in [(None, False), ('int(a2)', False), ('int(a2)', True), ('a2', False)]:
        for distinct in ['', 'distinct', 'count']:
            for n_kind, n in [(None, None), ('top', 1), ('limit', 2)]:
                nasty_qs.append(Query(items=[('a1', None)], order=order, desc=desc, distinct=distinct, top=n if n_kind == 'top' else None, limit=n if n_kind == 'limit' else None))
    cases = [(q, A, None) for A in nasty for q in nasty_qs] + cases
    r = _run(cases, '3 tables with records equal as text but not as values / sort keys outside the select list x 36 order-distinct-top shapes; all tables of <=3 rows over {x,y}^2 plus 2 tie-rich tables x {order none/asc/desc/2 keys} x {none,distinct,distinct count} x {none, top/limit 0,1,2,5} x 3 select lists; real query_table vs reference sort-dedup-truncate', tier, seed, 6000)
    r['job'] = 'pipeline_order_distinct_top'
    t = termination_job(seed)
    r['evaluations'] += t['evaluations']
    r['failures'].extend(t['failures'])
    r['termination_cases'] = t['evaluations']
    return r


def termination_job(seed):
    """a bounded query without buffering stops pulling input: run on an unbounded counting iterator"""
    rbql, eng = load_rbql()
    fails = []
    n_eval = 0

    class Counting(eng.RBQLInputIterator):
        def __init__(self, limit):
            self.n = 0
            self.limit = limit

        def get_variables_map(self, query_text):
            vm = {}
            eng.parse_basic_variables(query_text, 'a', vm)
            return vm

        def get_record(self):
            self.n += 1
            if self.n > self.limit:
                raise RuntimeError('unbounded input: the query did not stop pulling')
            return [str(self.n % 3), str(self.n)]

    # (query, bound n, predicate on record number k deciding whether record k reaches the bounding writer)
    cases = [('select top 0 a1', 0, lambda k: True), ('select top 2 a1', 2, lambda k: True), ('select a1 limit 3', 3, lambda k: True),
             ('select top 2 distinct a2', 2, lambda k: True), ('select distinct a2 limit 3', 3, lambda k: True),
             ('select top 1 a1 where a1 == "2"', 1, lambda k: k % 3 == 2), ('select top 2 a2 where a1 == "0"', 2, lambda k: k % 3 == 0),
             ('select top 2 distinct a1', 2, lambda k: k <= 3)]
    for qtext, n, reaches in cases:
        # reading of the clause (DESIGN C02): the loop stops at the first record offered to the bounding writer
        # after n records were emitted, and never pulls after a refused write
        emitted = 0
        needed = None
        for k in range(1, 200):
            if reaches(k):
                if emitted >= n:
                    needed = k
                    break
                emitted += 1
        if needed is None:
            continue
        it = Counting(needed + 50)
        out = []
        w = eng.TableWriter(out)
        n_eval += 1
        try:
            eng.query(qtext, it, w, [])
        except Exception as e:
            fails.append({'replay': 'none', 'key': 'termination:' + qtext, 'query': qtext, 'expected': 'stops after the bound is reached', 'observed': repr(e)})
            continue
        if it.n != needed or len(out) != n:
            fails.append({'replay': 'none', 'key': 'termination:' + qtext, 'query': qtext, 'expected': '%d pulls, %d records' % (needed, n), 'observed': '%d pulls, %d records' % (it.n, len(out))})
    # UNNEST under a bound (quantifier of C02: {WHERE, JOIN, UNNEST}): one input record offers several output records; the refusal
    # may come in the middle of a record and must still stop the scan.  (query, records emitted, records pulled)
    for qtext, n, needed in [('select top 3 a1, UNNEST([a1, a2])', 3, 2), ('select UNNEST([a1, a2]) limit 2', 2, 2),
                             ('select top 1 UNNEST([a2, a2, a2])', 1, 1), ('select top 4 a2, UNNEST([a1, a2]) where a1 != "0"', 4, 4)]:
        it = Counting(needed + 50)
        out = []
        w = eng.TableWriter(out)
        n_eval += 1
        try:
            eng.query(qtext, it, w, [])
        except Exception as e:
            fails.append({'replay': 'none', 'key': 'termination:' + qtext, 'query': qtext, 'expected': 'stops after the bound is reached', 'observed': repr(e)})
            continue
        if it.n != needed or len(out) != n:
            fails.append({'replay': 'none', 'key': 'termination:' + qtext, 'query': qtext, 'expected': '%d pulls, %d records' % (needed, n), 'observed': '%d pulls, %d records' % (it.n, len(out))})
    return {'evaluations': n_eval, 'failures': fails}


# ------------------------------------------------------------------ C01
@job('C01')
def select_where_projection(prop, tier, seed):
    ragged = [[], [['x']], [['x', 'y'], ['z']], [['x'], [], ['y', 'z', 'w']], [[None, 'y'], ['x', None]], [['a;b', 'k'], ['', 'k'], ['c', 'k']]]
    tabs = tables(['x', 'y'], 2, widths=(1, 2)) + ragged
    item_sets = [[('a1', None)], [('a2', None), ('a1', None)], [('NR', None), ('NF', None)], [('*', None)], [('a.*', None), ('a1', None)],
                 [('a1', None), ('*', None), ('NR', None)], [("'lit,1'", None), ('a3', None)], [('len(record_a) * 2', None)],
                 [('a[1]', None), ('a[2]', None)], [('a1 is None', None)]]
    wheres = [None, "a1 == 'x'", 'NR > 1', 'NF == 2', 'a2 is None']
    qs = []
    for items in item_sets:
        for w in wheres:
            qs.append(Query(items=items, where=w))
    for ex in ([1], [2], [1, 2], [2, 1], [3]):
        for w in (None, 'NR > 1'):
            qs.append(Query(except_cols=ex, where=w))
    for items in ([("UNNEST((a1 or '').split(';'))", None)], [('a2', None), ("UNNEST((a1 or '').split(';'))", None), ('NR', None)],
                  [("UNNEST([v for v in (a1 or '').split(';') if len(v)])", None), ('a2', None)], [('*', None), ("unnest([a1, a1])", None)]):
        for w in (None, 'NR != 2'):
            qs.append(Query(items=items, where=w))
    cases = [(q, A, None) for A in tabs for q in qs]
    # joins feeding select (incl. UNNEST with several matches)
    B = [['x', 'p'], ['x', 'q'], ['y', 'r']]
    for kind in ('JOIN', 'LEFT JOIN'):
        for items in ([('a1', None), ('b2', None)], [('*', None)], [('b.*', None), ('a1', None)], [('a1', None), ("UNNEST([b2, b2])", None)]):
            for A in ([['x', '1'], ['z', '2'], ['y', '3']], [], [['y']]):
                cases.append((Query(items=items, join=(kind, [('a1', 'b1')])), A, B))
    r = _run(cases, 'tables of <=2 rows over {x,y} (widths 1,2) + ragged/empty/None tables x 10 select lists x 5 WHERE + EXCEPT lists + UNNEST forms + JOIN-fed selects; real query_table vs reference projection; also sources unchanged and outputs fresh', tier, seed, 5000)
    r['job'] = 'select_where_projection'
    return r


# ------------------------------------------------------------------ C04
@job('C04')
def join_pairs_job(prop, tier, seed):
    As = [[], [['k1', 'a']], [['k1', 'a'], ['k2', 'b'], ['k1', 'c']], [['k3', 'a'], ['k1', 'b']], [['1', 'a'], ['2', 'b'], ['3', 'k1']]]
    Bs = [[], [['k1', 'p']], [['k1', 'p'], ['k1', 'q'], ['k2', 'r']], [['k2', 'p', 'extra'], ['k1', 'q']], [['k9', 'p'], ['k8', 'k1']],
          [['a', 'k1'], ['b', 'k2'], ['k1', 'k1']],
          # record numbers as join keys: integer cells pair with NR, text digits never do
          [[3, 'c'], [1, 'a'], [3, 'cc'], [7, 'z']], [['1', 'one'], ['2', 'two'], [2, 'int']]]
    qs = []
    for kind in ('JOIN', 'INNER JOIN', 'LEFT JOIN', 'LEFT OUTER JOIN', 'STRICT LEFT JOIN'):
        for pairs in ([('a1', 'b1')], [('a1', 'b1'), ('a2', 'b2')], [('NR', 'bNR')], [('a1', 'b1'), ('NR', 'bNR')], [('a1', 'b2')],
                      [('aNR', 'bNR'), ('a1', 'b1')], [('a2', 'b1')], [('NR', 'b1')], [('aNR', 'b1'), ('a2', 'b2')]):
            for items in ([('a1', None), ('b2', None)], [('*', None)], [('a2', None), ('b1', None), ('bNR', None), ('NR', None)]):
                qs.append(Query(items=items, join=(kind, pairs)))
            qs.append(Query(items=[('a1', None), ('b2', None)], join=(kind, pairs), where='b2 is not None', order='a1', desc=True))
            qs.append(Query(update=[(2, 'b2')], join=(kind, pairs)))
    cases = [(q, A, B) for A in As for B in Bs for q in qs]
    r = _run(cases, '5 A tables x 8 B tables (empty, duplicate keys, ragged, unmatched, integer keys) x 5 join kinds x 9 key lists (1-2 keys, NR/bNR components, NR against a B field) x select/star/where+order/update shapes; real query_table vs reference pairing', tier, seed, 5000)
    r['job'] = 'join_pairs'
    return r


# ------------------------------------------------------------------ C05
@job('C05')
def update_job(prop, tier, seed):
    tabs = tables(['x', 'y'], 2, widths=(2,)) + [[['x', 'y', 'z'], ['p']], [['1', '2'], ['3', '4'], ['5', '6']], [[], ['x', 'y']]]
    ups = [[(1, 'a2')], [(1, 'a2'), (2, 'a1')], [(2, "'c'")], [(1, 'NU')], [(2, 'a1'), (1, "'k'"), (2, 'NR')], [(3, "'q'")], [(1, 'a1 + a2')]]
    qs = []
    for u in ups:
        for w in (None, "a1 == 'x'", 'NR == 2', "a2 != 'y'"):
            qs.append(Query(update=u, where=w))
    cases = [(q, A, None) for A in tabs for q in qs]
    B = [['x', 'p'], ['y', 'q'], ['y', 'r']]
    for kind in ('JOIN', 'LEFT JOIN'):
        for u in ([(2, 'b2')], [(1, 'NU'), (2, 'b2')]):
            for w in (None, "a2 == 'y' or b2 == 'p'", 'bNR == 1'):
                for A in ([['x', 'y'], ['z', 'y'], ['x', 'k']], [['y', 'y']], []):
                    cases.append((Query(update=u, where=w, join=(kind, [('a1', 'b1')])), A, B))
    r = _run(cases, 'tables of <=2 rows over {x,y}^2 + ragged/empty-row tables x 7 assignment lists (1-3 assignments, swap, NU, out-of-range) x 4 WHERE + INNER/LEFT JOIN updates; real query_table vs reference update', tier, seed, 5000)
    r['job'] = 'update_rows'
    return r


# ------------------------------------------------------------------ C06 (python list sources; other sources in jobs_misc)
@job('C06')
def sources_untouched(prop, tier, seed):
    tabs = [[['x', 'y'], ['z']], [['x', 'y'], ['x', 'k'], ['p', 'q']], [['a']], []]
    B = [['x', 'p'], ['x', 'q'], ['y']]
    qs = [Query(items=[('*', None)]), Query(items=[('a.*', None)]), Query(items=[('*', None), ('a1', None)]), Query(except_cols=[2]),
          Query(except_cols=[2, 3]), Query(update=[(1, "'new'")]), Query(update=[(1, "'new'")], where='NR == 1'), Query(update=[(2, "'new'")]),
          Query(items=[('a1', None)], order='a1', distinct='count'), Query(items=[('*', None)], order='a1', desc=True, top=1),
          Query(items=[("UNNEST([a1, a1])", None), ('*', None)])]
    cases = [(q, A, None) for A in tabs for q in qs]
    for kind in ('JOIN', 'LEFT JOIN'):
        for q in (Query(items=[('*', None)], join=(kind, [('a1', 'b1')])), Query(items=[('b.*', None)], join=(kind, [('a1', 'b1')])),
                  Query(items=[('a.*', None)], join=(kind, [('a1', 'b1')])), Query(update=[(1, 'b2')], join=(kind, [('a1', 'b1')]))):
            for A in tabs:
                cases.append((q, A, B))
    r = _run(cases, 'star/EXCEPT/UPDATE/UNNEST/JOIN queries on ragged list tables: input and join lists deep-equal before/after (also after failing queries) and no output record is an input row object', tier, seed, 5000)
    r['job'] = 'sources_untouched_lists'
    return r


# ------------------------------------------------------------------ C03
def _ref_agg(name, vals):
    import math
    if name == 'COUNT':
        return len(vals)
    if name == 'ARRAY_AGG':
        return list(vals)
    if name == 'ANY_VALUE':
        return vals[0]
    nums = []
    for v in vals:
        if isinstance(v, str):
            try:
                nums.append(int(v))
            except ValueError:
                nums.append(float(v))
        else:
            nums.append(v)
    if name == 'MIN':
        return min(nums)
    if name == 'MAX':
        return max(nums)
    if name == 'SUM':
        return sum(nums)
    if name == 'AVG':
        return sum(nums) / float(len(nums))
    if name == 'VARIANCE':
        m = sum(nums) / float(len(nums))
        return sum((x - m) ** 2 for x in nums) / float(len(nums))
    if name == 'MEDIAN':
        s = sorted(nums)
        n = len(s)
        return s[n // 2] if n % 2 else (s[n // 2 - 1] + s[n // 2]) / 2.0
    raise ValueError(name)


def _close(a, b):
    if isinstance(a, int) and isinstance(b, int) and not isinstance(a, bool) and not isinstance(b, bool):
        return a == b               # integers are exact, however large
    if isinstance(a, (int, float)) and isinstance(b, (int, float)) and not isinstance(a, bool):
        return abs(a - b) <= 1e-9 * max(1.0, abs(a), abs(b))
    return a == b


@job('C03')
def aggregates_job(prop, tier, seed):
    import itertools
    rbql, eng = load_rbql()
    fails = []
    n = 0
    nameset = ['COUNT', 'MIN', 'MAX', 'SUM', 'AVG', 'VARIANCE', 'MEDIAN', 'ARRAY_AGG', 'ANY_VALUE']
    valsets = [['1', '2', '3'], ['0', '5'], ['-3', '0', '-1'], ['2', '2.5'], ['10', '9', '100'], ['7'], ['1.5', '-2', '4', '4'], ['0', '0'],
               ['9007199254740993', '1', '9007199254740995'], ['-9007199254740993']]      # integers a double cannot hold
    groupings = [None, 'a1', 'a1, a3']
    tables = []
    for vs in valsets:
        for keys in (['x'] * len(vs), ['y', 'x', 'y', 'x'][:len(vs)], ['k10', 'k9', 'k100'][:len(vs)] + ['k9'] * max(0, len(vs) - 3)):
            tables.append([[k, v, 'c'] for k, v in zip(keys, vs)])
    tables += [[], [['x', 5, 'c'], ['x', -2, 'c'], ['y', 0, 'c']], [['new', '1', 'c'], ['new york', '2', 'c'], ['new', '3', 'd']], [[10, '1', 'c'], [9, '2', 'c'], [100, '3', 'c']]]
    spellings = {'COUNT': ['COUNT', 'count', 'Count'], 'MIN': ['MIN', 'min', 'Min'], 'MAX': ['MAX', 'max', 'Max'], 'SUM': ['SUM', 'sum', 'Sum'], 'AVG': ['AVG', 'avg'],
                 'VARIANCE': ['VARIANCE', 'variance'], 'MEDIAN': ['MEDIAN', 'median'], 'ARRAY_AGG': ['ARRAY_AGG', 'array_agg'], 'ANY_VALUE': ['ANY_VALUE', 'any_value']}
    rnd = random.Random(seed)
    for T in tables:
        for grouping in groupings:
            for names in ([n1] for n1 in nameset):
                name = names[0]
                for sp in spellings[name]:
                    for where in (None, "a3 == 'c'"):
                        if name in ('AVG', 'VARIANCE') and any(isinstance(r[1], str) and len(r[1]) > 15 for r in T):
                            continue    # floating-point aggregates of integers beyond 2**53: see the targeted case agg:bigint:variance (known finding F14)
                        arg = 'a2' if name != 'COUNT' else rnd.choice(['*', '1', 'a2'])
                        items = ([grouping.split(', ')[0]] if grouping else []) + ['%s(%s)' % (sp, arg)]
                        q = 'select ' + ', '.join(items)
                        if where:
                            q += ' where ' + where
                        if grouping:
                            q += ' group by ' + grouping
                        rows = [r for r in T if (where is None or r[2] == 'c')]
                        groups = {}
                        for r in rows:
                            k = tuple(r[0:1]) if grouping == 'a1' else ((r[0], r[2]) if grouping else None)
                            groups.setdefault(k, []).append(r)
                        try:
                            exp = []
                            for k in sorted(groups):
                                g = groups[k]
                                val = _ref_agg(name, [r[1] for r in g])
                                exp.append(([g[0][0]] if grouping else []) + [val])
                        except TypeError:
                            continue
                        n += 1
                        res = run_real(q, T)
                        ok = res[0] == 'ok' and len(res[1]) == len(exp) and all(len(a) == len(b) and all(_close(x, y) for x, y in zip(a, b)) for a, b in zip(res[1], exp))
                        if not ok:
                            fails.append({'replay': 'agg', 'key': _key(q, T, None), 'query': q, 'A': T, 'expected': exp, 'observed': res[1] if res[0] == 'ok' else '%s: %s' % (res[1], res[2])})
                            if len(fails) >= MAX_FAIL:
                                break
                    if len(fails) >= MAX_FAIL:
                        break
                if len(fails) >= MAX_FAIL:
                    break
            if len(fails) >= MAX_FAIL:
                break
        if len(fails) >= MAX_FAIL:
            break
    # non-constant plain column must fail; builtin meaning of lower-case min/max/sum with several args or an iterable
    extra = [
        ('select a1, a2, COUNT(*) group by a1', [['x', '0', 'c'], ['x', '1', 'c']], 'error'),
        ('select a1, a2, COUNT(*) group by a1', [['x', 0, 'c'], ['x', 1, 'c']], 'error'),
        ('select a1, a3, COUNT(*) group by a1', [['x', '0', 'c'], ['x', '1', 'c']], [['x', 'c', 2]]),
        ('select max(int(a2), 5), min([7, int(a2)]), sum([int(a2), 1])', [['x', '3', 'c'], ['y', '9', 'c']], [[5, 3, 4], [9, 7, 10]]),
        ('select MAX(a2)', [['x', '-3', 'c'], ['x', '-7', 'c']], [[-3]]),
        ('select MIN(a2)', [['x', '0', 'c'], ['x', '5', 'c']], [[0]]),
        ('select MAX(a2), MIN(a2)', [['x', '-3', 'c'], ['x', '0', 'c'], ['x', '-1', 'c']], [[0, -3]]),
        ('select SUM(a2)', [['x', 'abc', 'c']], 'error'),
        ('select a1, SUM(a2) group by a1', [['solo', '4', 'c'], ['p', '1', 'c'], ['p', '2', 'c']], [['p', 3], ['solo', 4]]),
        ('select COUNT(*) where a1 == "only"', [['only', '1', 'c'], ['z', '2', 'c']], [[1]]),
        ('select top 1 a1, COUNT(*) group by a1', [['b', '1', 'c'], ['a', '1', 'c']], [['a', 1]]),
        ('select MEDIAN(a2)', [['x', '1', 'c'], ['x', 'bad', 'c']], 'error-names-record-2'),
    ]
    for q, T, exp in extra:
        n += 1
        res = run_real(q, T)
        if exp == 'error':
            ok = res[0] == 'error' and res[1] == 'RbqlRuntimeError'
        elif exp == 'error-names-record-2':
            ok = res[0] == 'error' and res[1] == 'RbqlRuntimeError' and 'record 2' in res[2]
        else:
            ok = res[0] == 'ok' and res[1] == exp
        if not ok:
            fails.append({'replay': 'agg', 'key': _key(q, T, None), 'query': q, 'A': T, 'expected': exp, 'observed': res[1] if res[0] == 'ok' else '%s: %s' % (res[1], res[2])})
    return {'job': 'aggregates', 'evaluations': n, 'distinct_nontrivial': n, 'exhaustive': True,
            'rule': '9 aggregates x spellings (upper/lower/capitalised) x {no GROUP BY, 1 key, 2 keys} x WHERE on/off over 28 small tables (numeric strings, ints, negative, zero, float fallback, even/odd counts, keys whose string order differs from value order) vs the mathematical definitions; constant-column rule; builtin min/max/sum dispatch',
            'failures': fails, 'samples': ['select a1, MEDIAN(a2) group by a1']}


def replay_agg(case):
    res = run_real(case['query'], case['A'])
    obs = res[1] if res[0] == 'ok' else '%s: %s' % (res[1], res[2])
    exp = case['expected']
    if isinstance(exp, list):
        ok = res[0] == 'ok' and len(res[1]) == len(exp) and all(len(a) == len(b) and all(_close(x, y) for x, y in zip(a, b)) for a, b in zip(res[1], exp))
    elif exp == 'error':
        ok = res[0] == 'error'
    else:
        ok = res[0] == 'error' and 'record 2' in res[2]
    return {'fails': not ok, 'query': case['query'], 'A': case['A'], 'expected': exp, 'observed': obs}


# ------------------------------------------------------------------ C07
ITEM_KINDS = [
    # (text, kind, payload)
    ('a1', 'acol', 0), ('a2', 'acol', 1), ('a[1]', 'acol', 0), ('a[2]', 'acol', 1), ('a.n1', 'name', 'n1'), ('a["n2"]', 'name', 'n2'), ("a['n1']", 'name', 'n1'),
    ('NR', 'name', 'NR'), ('NF', 'name', 'NF'), ("a1 + '!'", 'expr', None), ("'x,y'", 'expr', None), ('len(a1 + a2)', 'expr', None), ('max(int(a2) if a2.isdigit() else 0, 3)', 'expr', None),
    ('a1 as first', 'alias', 'first'), ("a1 + a2 AS both", 'alias', 'both'), ('a1 or a2 as x', 'alias', 'x'), ('not a1 as y', 'alias', 'y'), ('a1 if a2 else a1 as z', 'alias', 'z'),
    ('len(a1) as L', 'alias', 'L'), ('*', 'star', None), ('a.*', 'astar', None), ('a9', 'acol', 8),
]
JOIN_ITEMS = [('b1', 'bcol', 0), ('b2', 'bcol', 1), ('b3', 'bcol', 2), ('b.*', 'bstar', None), ('b.m2', 'name', 'm2'), ('b["m1"]', 'name', 'm1'), ('b5', 'bcol', 4)]


def _ref_header(items, ih, jh):
    """C07 naming rule; returns None when no header is produced"""
    has_alias = any(k == 'alias' for _, k, _ in items)
    if ih is None:
        if not has_alias:
            return None
        ih2, jh2 = [], []
    else:
        ih2, jh2 = ih, (jh or [])
    out = []
    for text, kind, payload in items:
        pos = len(out) + 1
        if kind == 'star':
            out += ih2 + jh2
        elif kind == 'astar':
            out += ih2
        elif kind == 'bstar':
            out += jh2
        elif kind in ('name', 'alias'):
            out.append(payload)
        elif kind == 'acol':
            out.append(ih2[payload] if payload < len(ih2) else 'col%d' % pos)
        elif kind == 'bcol':
            out.append(jh2[payload] if payload < len(jh2) else 'col%d' % pos)
        else:
            out.append('col%d' % pos)
    return out


@job('C07')
def header_job(prop, tier, seed):
    import itertools
    rbql, eng = load_rbql()
    fails = []
    n = 0
    A = [['x', '1'], ['y', '22']]
    B = [['x', 'p', 'q', 'r'], ['y', 'p2', 'q2', 'r2']]
    ih, jh = ['n1', 'n2'], ['m1', 'm2', 'm3', 'm4']
    rnd = random.Random(seed)
    lists = [[i] for i in ITEM_KINDS] + [list(p) for p in itertools.permutations(ITEM_KINDS, 2)]
    if tier == 'quick':
        lists = lists[:len(ITEM_KINDS)] + rnd.sample(lists[len(ITEM_KINDS):], 250)
    for items in lists:
        for with_header in (True, False):
            for join in (False, True):
                its = list(items)
                if join:
                    its = its + [rnd.choice(JOIN_ITEMS)]
                if not with_header and any(k in ('name',) and p not in ('NR', 'NF') for _, k, p in its):
                    continue
                if not with_header and any(k == 'alias' for _, k, _ in its) and any(k in ('star', 'astar', 'bstar') for _, k, _ in its):
                    continue
                q = 'select ' + ', '.join(t for t, _, _ in its) + (' join b on a1 == b1' if join else '')
                exp = _ref_header(its, ih if with_header else None, (jh if with_header else None) if join else None)
                n += 1
                out, warnings, hdr = [], [], []
                try:
                    eng.query_table(q, [list(r) for r in A], out, warnings, [list(r) for r in B] if join else None, ih if with_header else None, (jh if with_header else None) if join else None, hdr)
                except Exception as e:
                    fails.append({'replay': 'header', 'key': _key(q, with_header, join), 'query': q, 'with_header': with_header, 'join': join, 'expected': exp, 'observed': '%s: %s' % (type(e).__name__, e)})
                    continue
                got = hdr if (hdr or exp is not None) else None
                if exp is None:
                    ok = hdr == []
                else:
                    ok = hdr == exp and all(len(r) == len(exp) for r in out)
                if not ok:
                    fails.append({'replay': 'header', 'key': _key(q, with_header, join), 'query': q, 'with_header': with_header, 'join': join, 'expected': exp, 'observed': hdr,
                                  'record_widths': sorted(set(len(r) for r in out))})
                if len(fails) >= MAX_FAIL:
                    break
            if len(fails) >= MAX_FAIL:
                break
        if len(fails) >= MAX_FAIL:
            break
    # header width == record width through writers that enforce it (CSV), incl. DISTINCT COUNT, EXCEPT, aggregates, UPDATE, TOP
    import io
    from rbql import rbql_csv
    for q, want_hdr in [('select distinct count a1', None), ('select * except a2', ['n1']), ('select a1, COUNT(*) group by a1', ['n1', 'col2']), ('update a2 = "k"', ['n1', 'n2']),
                        ('select top 1 *', ['n1', 'n2']), ('select distinct a2, a1', ['n2', 'n1']), ('select a1 as k, * except a1', None)]:
        n += 1
        src = 'n1,n2\nx,1\ny,2\nx,1\n'
        it = rbql_csv.CSVRecordIterator(io.StringIO(src), None, ',', 'quoted', has_header=True)
        outs = io.StringIO()
        w = rbql_csv.CSVWriter(outs, False, None, ',', 'quoted')
        try:
            eng.query(q, it, w, [])
            lines = outs.getvalue().strip('\n').split('\n')
            widths = set(len(l.split(',')) for l in lines)
            ok = len(widths) == 1 and (want_hdr is None or lines[0].split(',') == want_hdr)
            obs = lines[:3]
        except eng.RbqlParsingError as e:
            ok = q.startswith('select a1 as k, * except')      # EXCEPT with other items is rejected at parse time: fine
            obs = 'RbqlParsingError: %s' % e
        except Exception as e:
            ok = False
            obs = '%s: %s' % (type(e).__name__, e)
        if not ok:
            fails.append({'replay': 'none', 'key': 'csvwidth:' + q.replace(' ', '_'), 'query': q, 'expected': 'header width == record width%s' % ('' if want_hdr is None else ', header %r' % want_hdr), 'observed': obs})
    # WITH (header) / WITH (noheader) overrides the caller's flag before the header is derived (C07, C09)
    for flag in (True, False):
        for modifier in (None, 'header', 'noheader', 'headers', 'noheaders'):
            for q0, kind in (('select a1, a2', 'cols'), ('select *', 'star'), ('update a2 = "k"', 'update'), ('select a2 as z, a1', 'alias')):
                n += 1
                q = q0 + (' with (%s)' % modifier if modifier else '')
                eff = flag if modifier is None else modifier.startswith('header')
                src = 'n1,n2\nx,1\ny,2\n'
                it = rbql_csv.CSVRecordIterator(io.StringIO(src), None, ',', 'quoted', has_header=flag)
                outs = io.StringIO()
                w = rbql_csv.CSVWriter(outs, False, None, ',', 'quoted')
                try:
                    eng.query(q, it, w, [])
                    lines = outs.getvalue().strip('\n').split('\n')
                except Exception as e:
                    lines = ['%s: %s' % (type(e).__name__, e)]
                data = [['x', '1'], ['y', '2']] if eff else [['n1', 'n2'], ['x', '1'], ['y', '2']]
                if kind == 'update':
                    rows = [[r[0], 'k'] for r in data]
                elif kind == 'alias':
                    rows = [[r[1], r[0]] for r in data]
                else:
                    rows = data
                if eff:
                    hdr = {'cols': ['n1', 'n2'], 'star': ['n1', 'n2'], 'update': ['n1', 'n2'], 'alias': ['z', 'n1']}[kind]
                else:
                    hdr = ['z', 'col2'] if kind == 'alias' else None
                exp_lines = ([','.join(hdr)] if hdr else []) + [','.join(r) for r in rows]
                if lines != exp_lines:
                    fails.append({'replay': 'none', 'key': 'with:%s:%s:%s' % (flag, modifier, kind), 'query': q, 'caller_flag': flag, 'expected': exp_lines, 'observed': lines})
    return {'job': 'output_header', 'evaluations': n, 'distinct_nontrivial': len(lists), 'exhaustive': tier != 'quick',
            'rule': 'select lists of 1-2 items (+1 join item) over 22 item kinds (aN, a[N], a.name, a["name"], bare names, expressions with commas/calls/literals, aliases on or/not/if-else expressions in both cases, star forms, out-of-range fields) x header on/off x join on/off: output_column_names vs the naming rule and record width; header width == record width through CSVWriter for DISTINCT COUNT, EXCEPT, aggregates, UPDATE, TOP',
            'failures': fails, 'samples': ['select a1 or a2 as x, a[2]']}


def replay_header(case):
    rbql, eng = load_rbql()
    A = [['x', '1'], ['y', '22']]
    B = [['x', 'p', 'q', 'r'], ['y', 'p2', 'q2', 'r2']]
    ih, jh = ['n1', 'n2'], ['m1', 'm2', 'm3', 'm4']
    out, hdr = [], []
    try:
        eng.query_table(case['query'], A, out, [], B if case['join'] else None, ih if case['with_header'] else None, (jh if case['with_header'] else None) if case['join'] else None, hdr)
        obs = hdr
    except Exception as e:
        obs = '%s: %s' % (type(e).__name__, e)
    exp = case['expected']
    ok = (obs == []) if exp is None else (obs == exp)
    return {'fails': not ok, 'query': case['query'], 'expected': exp, 'observed': obs}
