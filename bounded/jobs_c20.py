"""BOUNDED job for C20: the JavaScript stream reader is independent of chunk boundaries.

The tree's rbql-js/rbql_csv.js CSVRecordIterator is driven in stream mode (stream = a real stream.Readable that emits
prescribed Buffers, csv_path = null) by one node driver per shard (require() of <REPO>/rbql-js/*.js by absolute path).  For
every input the driver delivers the bytes under every byte-level partition (bit mask over the n-1 inner offsets) and compares
records (get_all_records) and warnings (get_warnings) - or the error - with the single-chunk delivery of the same bytes.

Second oracles: the tree's Python reader on the same bytes (block digests of the single-chunk results, as in jobs_c18), and
the JavaScript bulk-read mode (csv_path) for short inputs, the UTF-8 samples and the large files.

Parts: (1) every input of n <= L bytes over {a, ", comma, LF, CR, #} x {simple, quoted, quoted_rfc} x comment prefix {none, #},
every partition; (2) UTF-8 samples with 2-, 3- and 4-byte characters, every partition, encoding utf-8 (valid UTF-8 must never
be rejected) and latin-1; (3) large files read through fs.createReadStream with its default 64 KiB chunk size, where a CRLF
pair / a multi-byte character / a quoted multi-line field lies across offset 65536.

The enumeration runs inside node; for wall time the words are spread over several node processes by residue class of their index
(VERIF_C20_SHARDS=1 for a single process).

Failures are grouped by reason class (the 'key'); the record carries the smallest failing input of its class, the partition,
both results, the number of failing deliveries of the class, and what replay needs.
"""
import hashlib
import io
import itertools
import json
import os
import random
import re
import subprocess
import tempfile
import time

from .registry import job
from .refsem import load_rbql, REPO

REPO_JS = os.path.join(REPO, 'rbql-js')
MAX_FAILS = 12          # reason classes reported
BLOCK = 512
ALPHA = ['a', '"', ',', '\n', '\r', '#']
POLICIES = ['simple', 'quoted', 'quoted_rfc']
CHUNK = 65536           # default highWaterMark of fs.createReadStream

NODE_DRIVER = r'''
'use strict';
const fs = require('fs');
const path = require('path');
const crypto = require('crypto');
const stream_mod = require('stream');
const REPO_JS = process.argv[2];
const csv_utils = require(path.join(REPO_JS, 'csv_utils.js'));
const rbql_csv = require(path.join(REPO_JS, 'rbql_csv.js'));
const rbql = require(path.join(REPO_JS, 'rbql.js'));
{
    const real = fs.realpathSync(REPO_JS);
    for (const k of Object.keys(require.cache)) {
        if (/(csv_utils|rbql_csv|rbql)\.js$/.test(k) && !(k.startsWith(real + path.sep) || k.startsWith(REPO_JS + path.sep)))
            throw new Error('wrong module loaded: ' + k);
    }
}
const TMP = path.dirname(process.argv[3]);

function* enum_words(alpha, minlen, maxlen) {
    for (let n = minlen; n <= maxlen; n++) {
        let idx = new Array(n).fill(0);
        while (true) {
            let s = '';
            for (let i = 0; i < n; i++) s += alpha[idx[i]];
            yield s;
            let k = n - 1;
            while (k >= 0) {
                idx[k] += 1;
                if (idx[k] < alpha.length) break;
                idx[k] = 0;
                k -= 1;
            }
            if (k < 0) break;
        }
    }
}

function digest(parts) {
    return crypto.createHash('sha1').update(parts.join('\x1d'), 'utf8').digest('hex');
}

function classify(msg) {
    msg = String(msg);
    let nums = (msg.match(/[0-9]+/g) || []).join(',');
    if (/BOM/.test(msg)) return 'bom';
    if (/double quote/i.test(msg)) return 'quoting:' + nums;
    if (/Number of fields/i.test(msg)) return 'fieldcount:' + nums;
    if (/decode/i.test(msg)) return 'decode';
    if (/separator/i.test(msg)) return 'separator';
    if (/(null|None) values/.test(msg)) return 'null';
    return 'other:' + msg;
}

// a real node Readable that hands out the prescribed Buffers one per _read() call; what the consumer actually receives is
// recorded by a second 'data' listener (see deliver) and compared with the prescription
class ChunkStream extends stream_mod.Readable {
    constructor(chunks) { super(); this.chunks = chunks; this.pos = 0; }
    _read() {
        if (this.pos < this.chunks.length) this.push(this.chunks[this.pos++]);
        else this.push(null);
    }
}

// an exception thrown inside a stream event handler is not delivered to any promise: route it to the case that is running
let current_reject = null;
let late_exceptions = [];
let late_exception_count = 0;
process.on('uncaughtException', (e) => {
    if (current_reject !== null) { let r = current_reject; current_reject = null; r(e); }
    else {
        // thrown by a stream event handler after the delivery it belongs to was settled (or between deliveries): remembered and reported as a
        // failure of the run, the enumeration goes on
        if (late_exceptions.length < 5) late_exceptions.push({message: String(e && e.message).substring(0, 300), where: String(e && e.stack).split('\n').slice(1, 3).join(' | ').substring(0, 400)});
        late_exception_count += 1;
    }
});
let hang_count = 0;
let hang_example = null;
class ReaderHangs extends Error {}
function guarded(work) {
    // a read that produces neither a result nor an error within HANG_MS is a hang of the reader (tiny inputs, in-memory streams: milliseconds are
    // normal); after three of them the run is abandoned and reported as such instead of waiting for every remaining delivery
    const HANG_MS = 4000;
    let timer = null;
    return new Promise((resolve, reject) => {
        current_reject = reject;
        timer = setTimeout(() => {
            hang_count += 1;
            let err = new ReaderHangs('the reader did not finish within ' + HANG_MS + ' ms');
            if (hang_count >= 3) { abandon(err); return; }
            reject(err);
        }, HANG_MS);
        work().then(resolve, reject);
    }).finally(() => { current_reject = null; if (timer !== null) clearTimeout(timer); });
}
function abandon(err) {
    fs.writeFileSync(process.argv[4], JSON.stringify({ok: true, repo_js: REPO_JS, abandoned: 'reader-does-not-terminate', hang_count: hang_count, results: []}));
    process.exit(0);
}

let delivery_check_failures = 0;
let delivery_check_example = null;

function split_by_mask(buf, mask) {
    let chunks = [];
    let prev = 0;
    for (let i = 1; i < buf.length; i++) {
        if (mask & (1 << (i - 1))) { chunks.push(buf.subarray(prev, i)); prev = i; }
    }
    if (buf.length > prev) chunks.push(buf.subarray(prev));
    return chunks;
}

function split_by_cuts(buf, cuts) {
    let chunks = [];
    let prev = 0;
    for (const c of cuts) { if (c > prev && c < buf.length) { chunks.push(buf.subarray(prev, c)); prev = c; } }
    if (buf.length > prev) chunks.push(buf.subarray(prev));
    return chunks;
}

function cuts_of_mask(n, mask) {
    let cuts = [];
    for (let i = 1; i < n; i++) if (mask & (1 << (i - 1))) cuts.push(i);
    return cuts;
}

async function deliver(chunks, cfg) {
    // -> {error, error_kind, records, warnings}
    let enc = cfg.enc == 'latin-1' ? 'binary' : cfg.enc;
    let res = {error: null, error_kind: null, records: null, warnings: null};
    let seen = [];
    try {
        let st = new ChunkStream(chunks);
        let it = new rbql_csv.CSVRecordIterator(st, null, enc, cfg.dlm, cfg.policy, false, cfg.comment_prefix);
        st.on('data', (d) => { seen.push(d.length); });
        await guarded(async () => { res.records = await it.get_all_records(); });
        res.warnings = it.get_warnings().map(classify).sort();
    } catch (e) {
        res.error = (e && e.constructor) ? e.constructor.name : 'unknown';
        res.error_kind = classify(e && e.message);
        res.records = null; res.warnings = null;
    }
    if (res.error === null) {
        let ok = seen.length == chunks.length;
        for (let i = 0; ok && i < seen.length; i++) ok = seen[i] == chunks[i].length;
        if (!ok) {
            delivery_check_failures += 1;
            if (delivery_check_example === null) delivery_check_example = {prescribed: chunks.map(c => c.length), seen: seen};
        }
    }
    return res;
}

let bulk_counter = 0;
async function read_bulk(buf, cfg) {
    let enc = cfg.enc == 'latin-1' ? 'binary' : cfg.enc;
    let res = {error: null, error_kind: null, records: null, warnings: null};
    let p = path.join(TMP, 'bulk_' + process.pid + '_' + (bulk_counter++) + '.csv');
    try {
        fs.writeFileSync(p, buf);
        let it = new rbql_csv.CSVRecordIterator(null, p, enc, cfg.dlm, cfg.policy, false, cfg.comment_prefix);
        await guarded(async () => { res.records = await it.get_all_records(); });
        res.warnings = it.get_warnings().map(classify).sort();
    } catch (e) {
        res.error = (e && e.constructor) ? e.constructor.name : 'unknown';
        res.error_kind = classify(e && e.message);
        res.records = null; res.warnings = null;
    } finally {
        try { fs.unlinkSync(p); } catch (e2) {}
    }
    return res;
}

function canon(res) {
    if (res.error !== null)
        return 'E:' + res.error + ':' + res.error_kind;
    let r = res.records.map(x => x.length + '\x1f' + x.join('\x1f')).join('\x1e');
    return 'HN\x1eR' + res.records.length + '\x1e' + r + '\x1eW' + res.warnings.join(';');
}

function aspect_of(base, other) {
    if ((base.error === null) != (other.error === null)) return other.error !== null ? 'rejected' : 'accepted-instead-of-error';
    if (base.error !== null) return 'error-kind';
    if (JSON.stringify(base.records) != JSON.stringify(other.records)) return 'records';
    return 'warnings';
}

function is_continuation(b) { return (b & 0xC0) == 0x80; }

function reason_class(buf, cuts, cfg, base, other, tag) {
    // the reason class of a difference between the single-chunk result and a chunked delivery
    let aspect = aspect_of(base, other);
    let inside_char = false, bom_at_start = false, crlf_split = false;
    for (const c of cuts) {
        if (cfg.enc == 'utf-8' && is_continuation(buf[c])) inside_char = true;
        if (cfg.enc == 'utf-8' && c + 2 < buf.length && buf[c] == 0xEF && buf[c + 1] == 0xBB && buf[c + 2] == 0xBF) bom_at_start = true;
        if (buf[c - 1] == 0x0D && buf[c] == 0x0A) crlf_split = true;
    }
    if (inside_char && other.error !== null && other.error_kind == 'decode' && base.error === null)
        return 'utf8:multibyte-char-across-chunk-boundary:rejected';
    if (inside_char)
        return 'utf8:multibyte-char-across-chunk-boundary:' + aspect;
    if (bom_at_start)
        return 'utf8:U+FEFF-first-in-chunk:' + aspect;
    let cls = cfg.policy + (cfg.comment_prefix ? ':comment' : '') + ':' + cfg.enc;
    return tag + ':' + cls + (crlf_split ? ':cut-inside-CRLF' : '') + ':' + aspect;
}

function smaller(a, b) {
    // order on failure examples: shorter input, fewer chunks, then bytes
    if (a.hex.length != b.hex.length) return a.hex.length < b.hex.length;
    if (a.cuts.length != b.cuts.length) return a.cuts.length < b.cuts.length;
    if (a.hex != b.hex) return a.hex < b.hex;
    return JSON.stringify(a.cuts) < JSON.stringify(b.cuts);
}

class Groups {
    constructor() { this.map = new Map(); }
    add(key, ex) {
        let g = this.map.get(key);
        if (g === undefined) { this.map.set(key, {key: key, count: 1, example: ex}); return; }
        g.count += 1;
        if (smaller(ex, g.example)) g.example = ex;
    }
    list() { return Array.from(this.map.values()); }
}

async function all_partitions(buf, cfg, tag, groups, stats, with_bulk) {
    // -> canonical string of the single-chunk delivery
    let n = buf.length;
    let base = await deliver(n ? [buf] : [], cfg);
    let cbase = canon(base);
    stats.inputs += 1;
    stats.deliveries += 1;
    let total = n > 1 ? (1 << (n - 1)) : 1;
    for (let mask = 1; mask < total; mask++) {
        let res = await deliver(split_by_mask(buf, mask), cfg);
        stats.deliveries += 1;
        if (canon(res) != cbase) {
            stats.mismatches += 1;
            let cuts = cuts_of_mask(n, mask);
            groups.add(reason_class(buf, cuts, cfg, base, res, tag), {hex: buf.toString('hex'), cuts: cuts, cfg: cfg, single_chunk: base, chunked: res});
        }
    }
    if (with_bulk) {
        let b = await read_bulk(buf, cfg);
        stats.bulk += 1;
        if (canon(b) != cbase) {
            stats.mismatches += 1;
            let cls = cfg.policy + (cfg.comment_prefix ? ':comment' : '') + ':' + cfg.enc;
            groups.add('bulk-vs-single-chunk:' + tag + ':' + cls + ':' + aspect_of(b, base), {hex: buf.toString('hex'), cuts: [], cfg: cfg, bulk: b, single_chunk: base});
        }
    }
    return cbase;
}

async function op_ascii_enum(op) {
    // every word over op.alpha of length minlen..maxlen (restricted to the shard), every config, every partition
    let groups = new Groups();
    let stats = {inputs: 0, deliveries: 0, mismatches: 0, bulk: 0};
    let digs = [];
    for (const cfg of op.configs) {
        let parts = [], d = [];
        let wi = 0;
        for (const w of enum_words(op.alpha, op.minlen, op.maxlen)) {
            let mine = (wi % op.shards) == op.shard;
            wi += 1;
            if (!mine) continue;
            let buf = Buffer.from(w, 'latin1');
            parts.push(await all_partitions(buf, cfg, 'ascii', groups, stats, buf.length <= op.bulk_maxlen));
            if (parts.length == op.block) { d.push(digest(parts)); parts = []; }
        }
        if (parts.length) d.push(digest(parts));
        digs.push(d);
    }
    return {digests: digs, stats: stats, groups: groups.list()};
}

async function op_list(op) {
    // the given inputs (hex), every config, every partition; the canonical single-chunk results are returned
    let groups = new Groups();
    let stats = {inputs: 0, deliveries: 0, mismatches: 0, bulk: 0};
    let canons = [];
    for (const cfg of op.configs) {
        let cs = [];
        for (const hex of op.inputs) {
            let buf = Buffer.from(hex, 'hex');
            cs.push(await all_partitions(buf, cfg, op.tag, groups, stats, op.with_bulk));
        }
        canons.push(cs);
    }
    return {canons: canons, stats: stats, groups: groups.list()};
}

async function op_cases(op) {
    // explicit deliveries (replay): [{hex, cfg, cuts}] -> both results in full
    let out = [];
    for (const c of op.cases) {
        let buf = Buffer.from(c.hex, 'hex');
        let base = await deliver(buf.length ? [buf] : [], c.cfg);
        let res = await deliver(split_by_cuts(buf, c.cuts), c.cfg);
        let bulk = await read_bulk(buf, c.cfg);
        out.push({single_chunk: base, chunked: res, bulk: bulk, canon_single: canon(base), same: canon(base) == canon(res), bulk_same: canon(bulk) == canon(base)});
    }
    return {results: out};
}

function summary(res) {
    // a large result in short: error, number of records, warnings, digest of the canonical form
    return {error: res.error, error_kind: res.error_kind, n_records: res.records === null ? null : res.records.length, warnings: res.warnings,
            sha1: crypto.createHash('sha1').update(canon(res), 'utf8').digest('hex')};
}

function first_difference(a, b) {
    if (a.records === null || b.records === null) return null;
    let n = Math.min(a.records.length, b.records.length);
    for (let i = 0; i < n; i++) {
        if (JSON.stringify(a.records[i]) != JSON.stringify(b.records[i]))
            return {record: i + 1, a: JSON.stringify(a.records[i]).substring(0, 120), b: JSON.stringify(b.records[i]).substring(0, 120)};
    }
    if (a.records.length != b.records.length) return {record: n + 1, a: a.records.length + ' records', b: b.records.length + ' records'};
    return null;
}

async function op_large(op) {
    // files on disk, read (a) through fs.createReadStream with its default chunk size, (b) in bulk mode (csv_path)
    let out = [];
    for (const f of op.files) {
        let enc = f.cfg.enc == 'latin-1' ? 'binary' : f.cfg.enc;
        let st_res = {error: null, error_kind: null, records: null, warnings: null};
        let sizes = [];
        try {
            let st = fs.createReadStream(f.path);
            let it = new rbql_csv.CSVRecordIterator(st, null, enc, f.cfg.dlm, f.cfg.policy, false, f.cfg.comment_prefix);
            st.on('data', (d) => { sizes.push(d.length); });
            await guarded(async () => { st_res.records = await it.get_all_records(); });
            st_res.warnings = it.get_warnings().map(classify).sort();
        } catch (e) {
            st_res.error = (e && e.constructor) ? e.constructor.name : 'unknown';
            st_res.error_kind = classify(e && e.message);
            st_res.records = null; st_res.warnings = null;
        }
        let bulk = {error: null, error_kind: null, records: null, warnings: null};
        try {
            let it = new rbql_csv.CSVRecordIterator(null, f.path, enc, f.cfg.dlm, f.cfg.policy, false, f.cfg.comment_prefix);
            await guarded(async () => { bulk.records = await it.get_all_records(); });
            bulk.warnings = it.get_warnings().map(classify).sort();
        } catch (e) {
            bulk.error = (e && e.constructor) ? e.constructor.name : 'unknown';
            bulk.error_kind = classify(e && e.message);
            bulk.records = null; bulk.warnings = null;
        }
        out.push({name: f.name, chunk_sizes: sizes.slice(0, 8), stream: summary(st_res), bulk: summary(bulk), same: canon(st_res) == canon(bulk), first_difference: first_difference(bulk, st_res)});
    }
    return {results: out};
}

class SlowChunkStream extends stream_mod.Readable {
    // one prescribed Buffer per event-loop turn, so that the chunks of two streams really alternate
    constructor(chunks) { super(); this.chunks = chunks; this.pos = 0; }
    _read() {
        setImmediate(() => {
            if (this.pos < this.chunks.length) this.push(this.chunks[this.pos++]);
            else this.push(null);
        });
    }
}

async function op_interleaved(op) {
    // two readers open at the same time (as for a JOIN of two CSV streams): the events of the two streams interleave chunk by chunk;
    // each reader must give what it gives alone.  [{a_hex, a_cuts, b_hex, b_cuts, cfg}]
    let out = [];
    for (const c of op.cases) {
        let a = Buffer.from(c.a_hex, 'hex'), b = Buffer.from(c.b_hex, 'hex');
        let alone_a = await deliver([a], c.cfg), alone_b = await deliver([b], c.cfg);
        let enc = c.cfg.enc == 'latin-1' ? 'binary' : c.cfg.enc;
        let run = async (chunks) => {
            let res = {error: null, error_kind: null, records: null, warnings: null};
            try {
                let st = new SlowChunkStream(chunks);
                let it = new rbql_csv.CSVRecordIterator(st, null, enc, c.cfg.dlm, c.cfg.policy, false, c.cfg.comment_prefix);
                res.records = await it.get_all_records();
                res.warnings = it.get_warnings().map(classify).sort();
            } catch (e) {
                res.error = (e && e.constructor) ? e.constructor.name : 'unknown';
                res.error_kind = classify(e && e.message);
                res.records = null; res.warnings = null;
            }
            return res;
        };
        let both = await guarded(async () => Promise.all([run(split_by_cuts(a, c.a_cuts)), run(split_by_cuts(b, c.b_cuts))]));
        out.push({alone_a: alone_a, alone_b: alone_b, together_a: both[0], together_b: both[1],
                  same: canon(alone_a) == canon(both[0]) && canon(alone_b) == canon(both[1])});
    }
    return {results: out};
}

async function main() {
    let batch = JSON.parse(fs.readFileSync(process.argv[3], 'utf8'));
    let results = [];
    for (const op of batch.ops) {
        if (op.op == 'ascii_enum') results.push(await op_ascii_enum(op));
        else if (op.op == 'list') results.push(await op_list(op));
        else if (op.op == 'cases') results.push(await op_cases(op));
        else if (op.op == 'large') results.push(await op_large(op));
        else if (op.op == 'interleaved') results.push(await op_interleaved(op));
        else throw new Error('unknown op ' + op.op);
    }
    fs.writeFileSync(process.argv[4], JSON.stringify({ok: true, repo_js: REPO_JS, results: results, delivery_check_failures: delivery_check_failures, delivery_check_example: delivery_check_example,
                                                      late_exceptions: late_exceptions, late_exception_count: late_exception_count}));
}

main().then(() => { process.exit(0); }, (e) => { console.error(e && e.stack ? e.stack : String(e)); process.exit(3); });
'''


# ------------------------------------------------------------------------------------------------ infrastructure (as in jobs_c18)
class NodeCtx(object):
    def __init__(self):
        self.tmp = tempfile.mkdtemp(prefix='rbql_verif_c20_')
        self.driver = os.path.join(self.tmp, 'driver.js')
        with open(self.driver, 'w') as f:
            f.write(NODE_DRIVER)
        self.launches = 0

    def close(self):
        for root, dirs, files in os.walk(self.tmp, topdown=False):
            for f in files:
                try:
                    os.unlink(os.path.join(root, f))
                except OSError:
                    pass
            for d in dirs:
                try:
                    os.rmdir(os.path.join(root, d))
                except OSError:
                    pass
        try:
            os.rmdir(self.tmp)
        except OSError:
            pass


class ReaderHangs(Exception):
    pass


def hang_is_a_failure(f):
    """a reader that does not terminate is a violation of the property (no result), not a crash of the harness"""
    def wrapped(prop, tier, seed):
        try:
            return f(prop, tier, seed)
        except ReaderHangs as e:
            return {'job': f.__name__, 'evaluations': 3, 'distinct_nontrivial': 3, 'exhaustive': False, 'rule': 'abandoned: ' + str(e),
                    'failures': [{'replay': 'none', 'key': 'reader-does-not-terminate', 'expected': 'every read ends with the records or an error', 'observed': str(e)}]}
    wrapped.__name__ = f.__name__
    wrapped.__doc__ = f.__doc__
    return wrapped


def start_node(ctx, ops):
    ctx.launches += 1
    ip = os.path.join(ctx.tmp, 'batch_%d.json' % ctx.launches)
    op = os.path.join(ctx.tmp, 'result_%d.json' % ctx.launches)
    with open(ip, 'w') as f:
        json.dump({'ops': ops}, f)
    env = dict(os.environ)
    env.pop('NODE_PATH', None)
    errf = open(os.path.join(ctx.tmp, 'stderr_%d.txt' % ctx.launches), 'wb')
    proc = subprocess.Popen(['node', '--max-old-space-size=2048', ctx.driver, REPO_JS, ip, op], cwd=ctx.tmp, env=env, stdin=subprocess.DEVNULL,
                            stdout=subprocess.DEVNULL, stderr=errf)
    return proc, ip, op, errf


def finish_node(ctx, handle, timeout):
    proc, ip, op, errf = handle
    try:
        try:
            rc = proc.wait(timeout=timeout)
        except subprocess.TimeoutExpired:
            proc.kill()
            proc.wait()
            raise RuntimeError('node driver timed out after %s s' % timeout)
    finally:
        errf.close()
    if rc != 0 or not os.path.exists(op):
        with open(errf.name, 'rb') as f:
            err = f.read().decode('utf-8', 'replace')
        raise RuntimeError('node driver failed (rc=%s): %s' % (rc, err[-1500:]))
    with open(op) as f:
        res = json.load(f)
    assert res.get('ok') and res.get('repo_js') == REPO_JS, res.get('repo_js')
    if res.get('abandoned'):
        raise ReaderHangs('%s (%d reads produced neither a result nor an error within 4 s)' % (res['abandoned'], res.get('hang_count', 0)))
    if res.get('late_exception_count'):
        ctx.late = getattr(ctx, 'late', [])
        ctx.late.append({'count': res['late_exception_count'], 'examples': res.get('late_exceptions', [])})
    return res


def kill_all(handles):
    for h in handles:
        try:
            h[0].kill()
            h[0].wait()
            h[3].close()
        except Exception:
            pass


def words(alpha, minlen, maxlen):
    for n in range(minlen, maxlen + 1):
        for w in itertools.product(alpha, repeat=n):
            yield ''.join(w)


def digest(parts):
    return hashlib.sha1('\x1d'.join(parts).encode('utf-8')).hexdigest()


_num_rgx = re.compile('[0-9]+')


def classify(msg):
    """warning / error text -> category (+ the numbers in it); the same function exists in the node driver"""
    msg = str(msg)
    nums = ','.join(_num_rgx.findall(msg))
    if re.search('BOM', msg):
        return 'bom'
    if re.search('double quote', msg, re.I):
        return 'quoting:' + nums
    if re.search('Number of fields', msg, re.I):
        return 'fieldcount:' + nums
    if re.search('decode', msg, re.I):
        return 'decode'
    if re.search('separator', msg, re.I):
        return 'separator'
    if re.search('(null|None) values', msg):
        return 'null'
    return 'other:' + msg


def py_read(rbql_csv, data, cfg):
    res = {'error': None, 'error_kind': None, 'records': None, 'warnings': None}
    try:
        it = rbql_csv.CSVRecordIterator(io.BytesIO(data), cfg['enc'], cfg['dlm'], cfg['policy'], False, cfg['comment_prefix'])
        res['records'] = [list(r) for r in it.get_all_records()]
        res['warnings'] = sorted(classify(w) for w in it.get_warnings())
    except Exception as e:
        res = {'error': type(e).__name__, 'error_kind': classify(e), 'records': None, 'warnings': None}
    return res


def canon(res):
    if res['error'] is not None:
        return 'E:%s:%s' % (res['error'], res['error_kind'])
    r = '\x1e'.join('%d\x1f%s' % (len(x), '\x1f'.join(x)) for x in res['records'])
    return 'HN\x1eR%d\x1e%s\x1eW%s' % (len(res['records']), r, ';'.join(res['warnings']))


def cfg_of(policy, cp, enc='utf-8'):
    return {'enc': enc, 'dlm': ',', 'policy': policy, 'comment_prefix': cp}


def cfg_name(cfg):
    return '%s%s:%s' % (cfg['policy'], ':comment' if cfg['comment_prefix'] else '', cfg['enc'])


CONFIGS = [cfg_of(p, cp) for p in POLICIES for cp in (None, '#')]

# UTF-8 samples: 2-byte (e-acute, sharp s), 3-byte (CJK, euro sign), 4-byte (emoji, Gothic letter) characters next to every structural
# character of the dialects; every partition of each is delivered
UTF8_SAMPLES = ['\u00e9', '\u4e2d', '\U0001F600', 'a\u00e9,\u4e2d\n', '\u00e9\r\n\u4e2d', '"\u00e9",\U0001F600\n', '\U0001F600\n#\u00df', '"\u20ac\n\u00e9"\r\nb',
                '\u00e9,\u4e2d\n\U0001F600', '#\u4e2d\n\U00010348,"\u00e9"', 'x\u00e9\r', '\u00df\u00df,\u20ac\u20ac\n']
# U+FEFF inside the text (a valid 3-byte character; as the first character of a file it is the byte order mark of finding F12)
UTF8_FEFF_SAMPLES = ['a\ufeffb\n', 'a,b\n\ufeffc\n', '\ufeffa,b\n', '\ufeff"x",y\r\nz', 'a\ufffdb,c\n\ufffd']     # also: a byte order mark at the very start (any first chunk size), and the valid character U+FFFD


def large_files():
    """(name, bytes, cfg, note): files longer than 64 KiB whose interesting byte sequence lies across offset 65536"""
    out = []
    line = 'abcdefgh,12345,"q,r"\r\n'                       # 22 bytes
    filler_lines = CHUNK // len(line) - 2

    def build(start, special, tail_lines=400):
        """records of `line`, then one record that begins with a run of 'p' and is continued by `special`, which starts at byte offset `start`;
        then more records of `line`"""
        head = line * filler_lines
        pad_len = start - len(head)
        assert pad_len >= 4, pad_len
        body = head + 'p' * pad_len
        assert len(body) == start
        return (body + special + line * tail_lines).encode('utf-8')

    # CRLF pair across the boundary: CR is byte 65535, LF byte 65536
    out.append(('crlf-across-64k', build(CHUNK - 1, '\r\n'), cfg_of('quoted', None), 'CR at offset 65535, LF at 65536'))
    out.append(('crlf-across-64k-rfc', build(CHUNK - 1, '\r\n'), cfg_of('quoted_rfc', '#'), 'CR at offset 65535, LF at 65536'))
    # multi-line quoted field across the boundary
    out.append(('quoted-multiline-field-across-64k', build(CHUNK - 6, ',"multi\r\nline ""x"" field",end\r\n'), cfg_of('quoted_rfc', None), 'the quoted field starts at 65531 and ends behind 65536'))
    # comment line across the boundary
    out.append(('comment-line-across-64k', build(CHUNK - 4, '\n#comment, "not data\nreal,data\n'), cfg_of('quoted_rfc', '#'), 'a comment line starts at 65533'))
    # ASCII only, boundary in the middle of a plain field (control: no special sequence)
    out.append(('plain-field-across-64k', build(CHUNK - 3, 'plainfield,x\r\n'), cfg_of('simple', None), 'a plain field lies across 65536'))
    # multi-byte characters: every position of the boundary inside the character
    for ch, nm in (('\u00e9', '2-byte'), ('\u4e2d', '3-byte'), ('\U0001F600', '4-byte')):
        nb = len(ch.encode('utf-8'))
        for inside in range(1, nb):
            out.append(('%s-char-across-64k-at-%d' % (nm, inside), build(CHUNK - inside, ch + ',u\r\n'), cfg_of('quoted', None), '%s character starts at offset %d' % (nm, CHUNK - inside)))
        # control: the character ends exactly at the boundary
        out.append(('%s-char-ends-at-64k' % nm, build(CHUNK - nb, ch + ',u\r\n'), cfg_of('quoted', None), '%s character occupies the last bytes of the first chunk' % nm))
    # the same multi-byte file read as latin-1 must be independent of chunks, too
    out.append(('3-byte-char-across-64k-latin1', build(CHUNK - 1, '\u4e2d,u\r\n'), cfg_of('quoted', None, 'latin-1'), 'bytes of a 3-byte character across 65536, read as latin-1'))
    # two boundaries
    two = build(CHUNK - 1, '\r\n', tail_lines=(CHUNK // len(line)) + 50)
    out.append(('two-chunks-crlf', two, cfg_of('quoted_rfc', None), '%d bytes: three chunks' % len(two)))
    return out


class FailSink(object):
    def __init__(self, limit):
        self.limit = limit
        self.items = []
        self.keys = set()
        self.suppressed = 0

    def full(self):
        return len(self.items) >= self.limit

    def add(self, f):
        if f['key'] in self.keys:
            # the same reason class seen in another part of the job: noted on the record that is already there
            for g in self.items:
                if g['key'] == f['key']:
                    g.setdefault('also_observed_in', []).append({k: f[k] for k in ('part', 'file', 'what', 'input_bytes', 'cuts', 'failing_deliveries_of_this_class') if k in f})
            self.suppressed += 1
            return
        if self.full():
            self.suppressed += 1
            return
        self.keys.add(f['key'])
        self.items.append(f)


def merge_groups(lists):
    """groups of several shards / ops -> one group per key with the smallest example"""
    out = {}
    for groups in lists:
        for g in groups:
            o = out.get(g['key'])
            if o is None:
                out[g['key']] = dict(g)
                continue
            o['count'] += g['count']
            a, b = g['example'], o['example']
            if (len(a['hex']), len(a['cuts']), a['hex'], a['cuts']) < (len(b['hex']), len(b['cuts']), b['hex'], b['cuts']):
                o['example'] = a
    return [out[k] for k in sorted(out)]


def group_failure(g, part):
    ex = g['example']
    data = bytes.fromhex(ex['hex'])
    chunks, prev = [], 0
    for c in ex['cuts']:
        chunks.append(data[prev:c])
        prev = c
    chunks.append(data[prev:])
    observed = {k: ex[k] for k in ('single_chunk', 'chunked', 'bulk') if k in ex}
    return {'replay': 'c20', 'kind': 'partition', 'part': part, 'key': g['key'], 'failing_deliveries_of_this_class': g['count'], 'input_bytes': repr(data), 'hex': ex['hex'], 'cuts': ex['cuts'],
            'chunks': [repr(c) for c in chunks], 'cfg': ex['cfg'], 'expected': 'every partition of the bytes into chunks gives the records and warnings of the single-chunk delivery (and of bulk reading)',
            'observed': observed}


def ascii_bounds(tier):
    """(exhaustive maximal length, sampled length, number of sampled inputs, node processes the exhaustive part is spread over);
    VERIF_C20_SHARDS=1 runs the exhaustive enumeration in a single node process (about 2.5 CPU minutes for n <= 6)"""
    shards = os.environ.get('VERIF_C20_SHARDS')
    if tier == 'quick':
        return 6, 7, 1500, int(shards) if shards else 12
    return 7, 8, 4000, int(shards) if shards else 14


def py_enum_digests(rbql_csv, maxlen, shards):
    """python side of the exhaustive part: per shard, per config, the block digests of the canonical single-chunk results"""
    all_words = list(words(ALPHA, 0, maxlen))
    out = []
    canon_cache = {}
    for cfg in CONFIGS:
        cn = cfg_name(cfg)
        canon_cache[cn] = [canon(py_read(rbql_csv, w.encode('latin-1'), cfg)) for w in all_words]
    for s in range(shards):
        per_cfg = []
        for cfg in CONFIGS:
            cs = canon_cache[cfg_name(cfg)][s::shards]
            per_cfg.append([digest(cs[i:i + BLOCK]) for i in range(0, len(cs), BLOCK)])
        out.append(per_cfg)
    return out, all_words, canon_cache


@job('C20')
@hang_is_a_failure
def js_stream_reader_chunk_independence(prop, tier, seed):
    rbql, eng = load_rbql()
    from rbql import rbql_csv
    assert rbql_csv.__file__.startswith(os.path.join(REPO, 'rbql-py')), rbql_csv.__file__
    rnd = random.Random(seed)
    quick = tier == 'quick'
    l_exh, l_smp, n_smp, shards = ascii_bounds(tier)
    one_sink = FailSink(MAX_FAILS)
    sinks = {k: one_sink for k in ('ascii', 'utf8', 'large', 'oracle', 'harness')}
    ctx = NodeCtx()
    t0 = time.time()
    try:
        # ---- (1) exhaustive ASCII part: `shards` node processes, each enumerating its residue class of the words
        handles = []
        try:
            for s in range(shards):
                ops = [{'op': 'ascii_enum', 'alpha': ALPHA, 'minlen': 0, 'maxlen': l_exh, 'configs': CONFIGS, 'block': BLOCK, 'shards': shards, 'shard': s, 'bulk_maxlen': 3}]
                handles.append(start_node(ctx, ops))
            # ---- (1b) seeded sample of longer inputs, (2) UTF-8 samples, (3) large files: one more process
            sample = []
            seen = set()
            while len(sample) < n_smp:
                w = ''.join(rnd.choice(ALPHA) for _ in range(l_smp))
                if w not in seen:
                    seen.add(w)
                    sample.append(w)
            utf8_cfgs = CONFIGS + [cfg_of(p, '#', 'latin-1') for p in POLICIES]
            lf = large_files()
            lf_ops = []
            for i, (name, data, cfg, note) in enumerate(lf):
                p = os.path.join(ctx.tmp, 'large_%d.csv' % i)
                with open(p, 'wb') as f:
                    f.write(data)
                lf_ops.append({'name': name, 'path': p, 'cfg': cfg})
            misc_ops = [{'op': 'list', 'tag': 'ascii', 'inputs': [w.encode('latin-1').hex() for w in sample], 'configs': CONFIGS, 'with_bulk': False},
                        {'op': 'list', 'tag': 'utf8', 'inputs': [s.encode('utf-8').hex() for s in UTF8_SAMPLES], 'configs': utf8_cfgs, 'with_bulk': True},
                        {'op': 'list', 'tag': 'utf8', 'inputs': [s.encode('utf-8').hex() for s in UTF8_FEFF_SAMPLES], 'configs': CONFIGS[:4], 'with_bulk': True},
                        {'op': 'large', 'files': lf_ops}]
            # the sampled part is split over two processes
            half = len(sample) // 2
            m1 = dict(misc_ops[0])
            m1['inputs'] = misc_ops[0]['inputs'][:half]
            m2 = dict(misc_ops[0])
            m2['inputs'] = misc_ops[0]['inputs'][half:]
            h_misc1 = start_node(ctx, [m1] + misc_ops[1:])
            h_misc2 = start_node(ctx, [m2])
            handles += [h_misc1, h_misc2]
            # ---- python side, while node works
            py_digs, all_words, canon_cache = py_enum_digests(rbql_csv, l_exh, shards)
            py_sample = [[canon(py_read(rbql_csv, w.encode('latin-1'), cfg)) for w in sample] for cfg in CONFIGS]
            py_utf8 = [[canon(py_read(rbql_csv, s.encode('utf-8'), cfg)) for s in UTF8_SAMPLES] for cfg in utf8_cfgs]
            py_large = []
            for name, data, cfg, note in lf:
                r = py_read(rbql_csv, data, cfg)
                py_large.append({'error': r['error'], 'error_kind': r['error_kind'], 'n_records': None if r['records'] is None else len(r['records']), 'warnings': r['warnings'],
                                 'sha1': hashlib.sha1(canon(r).encode('utf-8')).hexdigest()})
            t_py = time.time()
            results = [finish_node(ctx, h, 150 if quick else 900) for h in handles]
        except BaseException:
            kill_all(handles)
            raise
        t_node = time.time()
        enum_res = [r['results'][0] for r in results[:shards]]
        misc1 = results[shards]['results']
        misc2 = results[shards + 1]['results']
        stats = {'inputs': 0, 'deliveries': 0, 'mismatches': 0, 'bulk': 0}

        def add_stats(s):
            for k in stats:
                stats[k] += s[k]
        # harness self-check: every prescribed chunk arrived as one 'data' event of exactly that size
        dcf = sum(r['delivery_check_failures'] for r in results)
        if dcf:
            ex = [r['delivery_check_example'] for r in results if r['delivery_check_example']][0]
            sinks['harness'].add({'replay': 'none', 'key': 'harness:chunks-not-delivered-as-prescribed', 'expected': 'the Readable emits exactly the prescribed Buffers', 'observed': {'count': dcf, 'example': ex}})
        # ---- (1) partitions
        for r in enum_res:
            add_stats(r['stats'])
        add_stats(misc1[0]['stats'])
        add_stats(misc2[0]['stats'])
        for g in merge_groups([r['groups'] for r in enum_res] + [misc1[0]['groups'], misc2[0]['groups']]):
            sinks['ascii'].add(group_failure(g, 'ascii'))
        # ---- second oracle: python reader on the same bytes (block digests; differing blocks looked at case by case)
        n_oracle = 0
        for s in range(shards):
            for ci, cfg in enumerate(CONFIGS):
                js_d, py_d = enum_res[s]['digests'][ci], py_digs[s][ci]
                cs = canon_cache[cfg_name(cfg)][s::shards]
                ws = all_words[s::shards]
                n_oracle += len(cs)
                if len(js_d) != len(py_d):
                    sinks['oracle'].add({'replay': 'none', 'key': 'py-oracle:enum-length', 'expected': '%d blocks' % len(py_d), 'observed': '%d blocks from node' % len(js_d)})
                    continue
                bad = [k for k in range(len(js_d)) if js_d[k] != py_d[k]]
                if bad and not sinks['oracle'].full():
                    pin = ws[bad[0] * BLOCK:(bad[0] + 1) * BLOCK]
                    res2 = finish_node(ctx, start_node(ctx, [{'op': 'cases', 'cases': [{'hex': w.encode('latin-1').hex(), 'cfg': cfg, 'cuts': []} for w in pin]}]), 120)['results'][0]['results']
                    for w, j in zip(pin, res2):
                        p = py_read(rbql_csv, w.encode('latin-1'), cfg)
                        if canon(p) != j['canon_single']:
                            sinks['oracle'].add(oracle_failure(w.encode('latin-1'), cfg, p, j['single_chunk']))
                            break
        sample_canons = [a + b for a, b in zip(misc1[0]['canons'], misc2[0]['canons'])]
        for ci, cfg in enumerate(CONFIGS):
            for w, jc, pc in zip(sample, sample_canons[ci], py_sample[ci]):
                n_oracle += 1
                if jc != pc:
                    sinks['oracle'].add(oracle_failure(w.encode('latin-1'), cfg, py_read(rbql_csv, w.encode('latin-1'), cfg), {'canonical': jc}))
        # ---- (2) UTF-8
        add_stats(misc1[1]['stats'])
        add_stats(misc1[2]['stats'])
        for g in merge_groups([misc1[1]['groups'], misc1[2]['groups']]):
            sinks['utf8'].add(group_failure(g, 'utf8'))
        for ci, cfg in enumerate(utf8_cfgs):
            for s_, jc, pc in zip(UTF8_SAMPLES, misc1[1]['canons'][ci], py_utf8[ci]):
                n_oracle += 1
                if jc != pc:
                    sinks['oracle'].add(oracle_failure(s_.encode('utf-8'), cfg, py_read(rbql_csv, s_.encode('utf-8'), cfg), {'canonical': jc}))
        # ---- (3) large files
        n_large = 0
        for (name, data, cfg, note), j, p in zip(lf, misc1[3]['results'], py_large):
            n_large += 1
            assert j['name'] == name
            n_chunks_expected = (len(data) + CHUNK - 1) // CHUNK
            if j['stream']['error'] is None and (len(j['chunk_sizes']) != min(8, n_chunks_expected) or j['chunk_sizes'][0] != CHUNK):
                sinks['harness'].add({'replay': 'none', 'key': 'harness:large-file-chunk-size', 'expected': '%d chunks, the first of %d bytes' % (n_chunks_expected, CHUNK), 'observed': j['chunk_sizes']})
            straddle = cfg['enc'] == 'utf-8' and len(data) > CHUNK and (data[CHUNK] & 0xC0) == 0x80
            base = {'replay': 'c20', 'kind': 'large', 'part': 'large', 'file': name, 'file_length': len(data), 'what': note, 'cfg': cfg, 'bytes_around_64k': repr(data[CHUNK - 8:CHUNK + 8]), 'chunk_sizes': j['chunk_sizes']}
            if not j['same']:
                if straddle and j['stream']['error'] is not None and j['stream']['error_kind'] == 'decode' and j['bulk']['error'] is None:
                    key = 'utf8:multibyte-char-across-chunk-boundary:rejected'
                elif straddle:
                    key = 'utf8:multibyte-char-across-chunk-boundary:' + ('records' if j['stream']['error'] is None else 'error-kind')
                else:
                    key = 'large:%s:stream-vs-bulk' % name
                f = dict(base)
                f.update({'key': key, 'expected': 'reading through a file stream (64 KiB chunks) gives the records and warnings of bulk reading', 'observed': {'stream': j['stream'], 'bulk': j['bulk'], 'first_difference': j['first_difference']}})
                sinks['large'].add(f)
            if j['bulk']['sha1'] != p['sha1']:
                f = dict(base)
                f.update({'key': 'py-oracle:large:%s' % name, 'expected': 'the python reader and the javascript bulk reader agree on the file', 'observed': {'python': p, 'js_bulk': j['bulk']}})
                sinks['oracle'].add(f)
    finally:
        ctx.close()
    fails = one_sink.items
    if getattr(ctx, 'late', None):
        fails = list(fails) + [{'replay': 'none', 'key': 'exception-in-a-stream-handler-outside-any-delivery', 'expected': 'no exception escapes the event handlers of the reader',
                                'observed': ctx.late[:3], 'count': sum(x['count'] for x in ctx.late)}]
    n_exh = sum(6 ** n for n in range(l_exh + 1))
    total = stats['deliveries'] + stats['bulk'] + n_oracle + 2 * n_large
    rule = ('rbql_csv.CSVRecordIterator of %s in stream mode (a real stream.Readable emitting the prescribed Buffers, csv_path null), policies simple / quoted / quoted_rfc (comma) x comment prefix {none, #}: '
            '(1) EXHAUSTIVE: every input of n <= %d bytes over {a, ", comma, LF, CR, #} (%d inputs) under ALL 2^(n-1) byte-level partitions; + %d seeded inputs of %d bytes under all %d partitions (sample); '
            'records and warning kinds (with their numbers) or the error must equal those of the single-chunk delivery; inputs of <= 3 bytes also against bulk reading (csv_path); the single-chunk results are '
            'compared with the python reader of the tree on the same bytes (second oracle). (2) %d UTF-8 samples with 2-, 3- and 4-byte characters (3-12 bytes) + %d samples with U+FEFF inside the text, '
            'under every partition, read as utf-8 (valid UTF-8 must never be rejected) and as latin-1, also against bulk reading and the python reader. (3) %d files of 66-133 KB read through fs.createReadStream '
            '(default 64 KiB chunks) against bulk reading and the python reader: CRLF, a multi-line quoted field, a comment line, a plain field, and 2-/3-/4-byte characters at every offset across byte 65536 (+ controls ending at the boundary).'
            % (REPO_JS, l_exh, n_exh, n_smp, l_smp, 2 ** (l_smp - 1), len(UTF8_SAMPLES), len(UTF8_FEFF_SAMPLES), len(lf)))
    return {'job': 'js_stream_reader_chunk_independence', 'evaluations': total, 'distinct_nontrivial': stats['inputs'], 'exhaustive': False, 'rule': rule,
            'bound': 'ASCII inputs: n <= %d exhaustive (all partitions), n = %d sampled (%d inputs, seed %r); UTF-8: %d fixed samples, all partitions; %d large files' % (l_exh, l_smp, n_smp, seed, len(UTF8_SAMPLES) + len(UTF8_FEFF_SAMPLES), len(lf)),
            'failures': fails, 'samples': ['b\'a\\r\\n"\' as [b\'a\\r\', b\'\\n"\'] quoted_rfc', repr(UTF8_SAMPLES[5].encode('utf-8')) + ' under all %d partitions' % (2 ** (len(UTF8_SAMPLES[5].encode('utf-8')) - 1)), lf[0][0]],
            'counts': {'inputs_x_configs': stats['inputs'], 'deliveries': stats['deliveries'], 'deliveries_differing_from_single_chunk': stats['mismatches'], 'bulk_reads': stats['bulk'], 'python_oracle_comparisons': n_oracle, 'large_files': n_large},
            'node_launches': ctx.launches, 'timing_s': {'python_side': round(t_py - t0, 1), 'extra_wait_for_node': round(t_node - t_py, 1)},
            'suppressed_duplicate_failures': one_sink.suppressed,
            'assumptions': ['node executes the tree\'s JavaScript as a user\'s node would', 'JS encoding name "binary" corresponds to Python "latin-1" (as in query_csv of rbql_csv.js)',
                            'a stream.Readable subclass whose _read() pushes one prescribed Buffer per call delivers them as separate \'data\' events (checked for every delivery by a second listener)',
                            'the exhaustive part is sharded over %d node processes by residue class of the word index; the longer ASCII inputs are a seeded sample, not exhaustive' % shards,
                            'chunk boundaries of fs.createReadStream are at multiples of 65536 (checked per file)']}


@job('C20')
@hang_is_a_failure
def js_stream_readers_do_not_interfere(prop, tier, seed):
    """two stream readers open at the same time (a JOIN of two CSV streams): each must give what it gives alone, whatever the chunks"""
    ctx = NodeCtx()
    fails = []
    n = 0
    try:
        cfg = cfg_of('quoted', None)
        samples = [s_.encode('utf-8') for s_ in UTF8_SAMPLES if len(s_.encode('utf-8')) >= 3][:8 if tier == 'quick' else len(UTF8_SAMPLES)]
        cases = []
        for a in samples:
            inner_a = [i for i in range(1, len(a)) if (a[i] & 0xC0) == 0x80]          # cuts inside a multi-byte character
            for b in samples[:4]:
                inner_b = [i for i in range(1, len(b)) if (b[i] & 0xC0) == 0x80]
                for ca in inner_a[:3]:
                    cases.append({'a_hex': a.hex(), 'a_cuts': [ca], 'b_hex': b.hex(), 'b_cuts': [], 'cfg': cfg})
                    for cb in inner_b[:2]:
                        cases.append({'a_hex': a.hex(), 'a_cuts': [ca], 'b_hex': b.hex(), 'b_cuts': [cb], 'cfg': cfg})
        cases += [{'a_hex': b'a\r\nb\n'.hex(), 'a_cuts': [2], 'b_hex': b'\nc\r'.hex(), 'b_cuts': [1], 'cfg': cfg_of('simple', None)},
                  {'a_hex': b'x,"p\nq"\n'.hex(), 'a_cuts': [4], 'b_hex': b'"r\ns",y\n'.hex(), 'b_cuts': [3], 'cfg': cfg_of('quoted_rfc', None)}]
        res = finish_node(ctx, start_node(ctx, [{'op': 'interleaved', 'cases': cases}]), 300)['results'][0]['results']
        for c, r in zip(cases, res):
            n += 1
            if not r['same']:
                which = 'a' if json.dumps(r['alone_a'], sort_keys=True) != json.dumps(r['together_a'], sort_keys=True) else 'b'
                kind = 'rejected' if r['together_' + which]['error'] is not None and r['alone_' + which]['error'] is None else 'records'
                key = 'interleaved-readers:%s' % kind
                if not any(f['key'] == key for f in fails):
                    fails.append({'replay': 'none', 'key': key, 'case': c, 'expected': {'a': r['alone_a'], 'b': r['alone_b']}, 'observed': {'a': r['together_a'], 'b': r['together_b']},
                                  'what': 'two CSVRecordIterator objects reading two streams at the same time: a reader gives a different result than when it reads alone'})
    finally:
        ctx.close()
    return {'job': 'js_stream_readers_do_not_interfere', 'evaluations': n, 'distinct_nontrivial': n, 'exhaustive': False,
            'rule': 'pairs of UTF-8 samples read by two CSVRecordIterator objects at the same time (Promise.all; the stream events interleave chunk by chunk), the first cut inside a multi-byte character, '
                    'the second whole or cut likewise; + a CRLF and a multi-line quoted pair: every reader must return what it returns when it reads alone',
            'bound': '%d pairs' % n, 'failures': fails, 'samples': [c['a_hex'] + ' | ' + c['b_hex'] for c in cases[:2]]}


def oracle_failure(data, cfg, p, j):
    aspect = 'error-vs-no-error' if (p['error'] is None) != (j.get('error') is None) and 'canonical' not in j else 'result'
    return {'replay': 'c20', 'kind': 'oracle', 'part': 'oracle', 'key': 'py-oracle:%s:%s' % (cfg_name(cfg), aspect), 'input_bytes': repr(data), 'hex': data.hex(), 'cuts': [], 'cfg': cfg,
            'expected': 'the python reader and the javascript stream reader (single chunk) agree on the bytes', 'observed': {'python': p, 'js_single_chunk': j}}


# ------------------------------------------------------------------------------------------------ replay
def replay_c20(case):
    rbql, eng = load_rbql()
    from rbql import rbql_csv
    ctx = NodeCtx()
    try:
        kind = case.get('kind')
        if kind in ('partition', 'oracle'):
            c = {'hex': case['hex'], 'cfg': case['cfg'], 'cuts': case.get('cuts') or []}
            j = finish_node(ctx, start_node(ctx, [{'op': 'cases', 'cases': [c]}]), 60)['results'][0]['results'][0]
            if kind == 'oracle':
                p = py_read(rbql_csv, bytes.fromhex(case['hex']), case['cfg'])
                fails = canon(p) != j['canon_single']
                return {'fails': fails, 'key': case.get('key'), 'expected': case.get('expected'), 'observed': {'python': p, 'js_single_chunk': j['single_chunk']}}
            fails = (not j['same']) or (not j['bulk_same'])
            return {'fails': fails, 'key': case.get('key'), 'input_bytes': case.get('input_bytes'), 'cuts': c['cuts'], 'expected': case.get('expected'),
                    'observed': {'single_chunk': j['single_chunk'], 'chunked': j['chunked'], 'bulk': j['bulk']}}
        if kind == 'large':
            for name, data, cfg, note in large_files():
                if name == case.get('file'):
                    p = os.path.join(ctx.tmp, 'large_replay.csv')
                    with open(p, 'wb') as f:
                        f.write(data)
                    j = finish_node(ctx, start_node(ctx, [{'op': 'large', 'files': [{'name': name, 'path': p, 'cfg': cfg}]}]), 120)['results'][0]['results'][0]
                    pr = py_read(rbql_csv, data, cfg)
                    py_sha = hashlib.sha1(canon(pr).encode('utf-8')).hexdigest()
                    fails = (not j['same']) if not str(case.get('key', '')).startswith('py-oracle') else (py_sha != j['bulk']['sha1'])
                    return {'fails': fails, 'key': case.get('key'), 'file': name, 'expected': case.get('expected'), 'observed': {'stream': j['stream'], 'bulk': j['bulk'], 'first_difference': j['first_difference'], 'chunk_sizes': j['chunk_sizes']}}
            return {'fails': True, 'expected': case.get('expected'), 'observed': 'unknown large file %r' % case.get('file')}
        return {'fails': True, 'expected': case.get('expected'), 'observed': 'unknown case kind %r' % kind}
    finally:
        ctx.close()
