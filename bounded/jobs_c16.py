"""BOUNDED job for C16 (queries are isolated: consecutive and thread-interleaved runs do not interfere).

The property is relational: the result of a query (output rows with value types, output header, warnings, or the
exception class + message together with the rows written before it) must equal the result of the same query run
ALONE IN A FRESH INTERPRETER.  The expectation is therefore never taken from a table of hard-wired answers: it is
the 'alone' result, computed in a process that has imported the tree's rbql and has run nothing else.

Architecture: the job process only orchestrates.  All queries run in children forked from pristine *worker*
processes (`python -c 'import bounded.jobs_c16 as m; m._worker_main()'`): a worker imports rbql, never runs a query
itself and forks one child per command, so that every command starts from the state "fresh interpreter + import".
  alone   one scenario in a fresh child                                      -> the expectation
  steps   one scenario alone under the cooperative scheduler                 -> number of scheduling segments
  seq     a short sequence of scenarios in a fresh child                     -> confirmation / minimisation / replay
  long    many sequences, one after the other in ONE child (a long history)  -> histories part
  ilv     two scenarios in two threads, one child runs all requested schedules (tables shared by the two queries)
Within one child all scenarios share the same in-memory table objects (input tables, join table, column-name
lists): queries only read their inputs, so sharing them must not matter.

Scheduler: the iterator / writer objects given to rbql.query (subclasses of the engine's TableIterator / TableWriter,
i.e. of RBQLInputIterator / RBQLOutputWriter) call Sched.point() at the entry of every get_record / write / finish;
point() looks up in the schedule which query gets the next segment, wakes that thread (semaphore hand-over) and blocks
until this thread is granted again; exactly one thread is runnable at any time; all waits have timeouts, threads are
daemons, and a thread that ends (normally or by an exception, which is captured as its result) passes control on.  A query with n such calls has n segments (query start up to and including its first call is
one segment), a schedule is a word over {0,1} with n zeros and m ones, so there are C(n+m, n) schedules.
"""
import itertools
import json
import math
import os
import random
import shutil
import signal
import subprocess
import sys
import tempfile
import threading
import time
import traceback

from .registry import job
from .refsem import load_rbql, REPO

VERIF_DIR = os.path.dirname(os.path.dirname(os.path.abspath(__file__)))
NWORKERS = {'quick': 12, 'thorough': 12}
MAXFAIL = 5

# ------------------------------------------------------------------------------------------------ data + scenarios

AROWS = [['car', '5', 'red'], ['bus', '20', 'blue'], ['car', '7', 'red'], ['tram', '11', 'green']]
PROWS = [['car', '5', 'red'], ['bus', 'oops'], ['car', '7', 'red'], ['tram', '11', 'green']]      # record 2 is poisoned
BROWS = [['car', 'road'], ['bus', 'lane'], ['boat', 'sea']]
HA = ['kind', 'num', 'color']
HB = ['kind', 'way']
CSV_A = 'kind,num,color\ncar,5,red\nbus,20,blue\n"tr,am",11,"gr""een"\n'
CSV_B = 'car,road\nbus,lane\n'


def S(q, tab='A', join=False, hdr=False, init='', kind='tbl', bsteps=False):
    return {'q': q, 'tab': tab, 'join': join, 'hdr': hdr, 'init': init, 'kind': kind, 'bsteps': bsteps}


SCEN = {
    'sel': S("select a1, int(a2) * 2, NR where a3 != 'blue'"),
    'star': S("select NF, *"),
    'ord': S("select a2, a1 order by int(a2) desc"),
    'agg': S("select a1, COUNT(*), SUM(a2), MAX(a2) group by a1"),
    'aggnum': S("select SUM(int(a2)), AVG(len(a1)), VARIANCE(NR), MEDIAN(int(a2)), MIN(NR)"),
    'aggstr': S("select a3, AVG(a2), VARIANCE(a2), MIN(a2), ARRAY_AGG(a1) group by a3"),
    'dcount': S("select distinct count a1"),
    'distinct': S("select distinct a3, len(a1)"),
    'unnest': S("select NR, UNNEST(a3.split('e'))"),
    'top': S("select top 2 a1, a3"),
    'join': S("select a1, b2, a2 join b on a1 == b1", join=True),
    'joinb': S("select a1, b2, a2 join b on a1 == b1", join=True, bsteps=True),
    'ljoin_h': S("select a.kind, b.way, a.num left join b on a.kind == b.kind", join=True, hdr=True),
    'upd': S("update a2 = int(a2) + 1, a3 = 'x' where a1 == 'car'"),
    'updjoin': S("update a3 = b2 join b on a1 == b1 where a1 != 'bus'", join=True),
    'except': S("select * except a2"),
    'except_h': S("select * except a.num", hdr=True),
    'like1': S("select a1, a3 where like(a3, 'r%')"),
    'like2': S("select a1, a3 where like(a3, '%e_') or like(a1, 'r%')"),
    'perr_assign': S("select a1 where a2 = 5"),
    'perr_syntax': S("select a1 +"),
    'perr_join': S("select a1 join nosuch on a1 == b1", join=True),
    'perr_aggdist': S("select distinct MAX(a2)"),
    'rerr_int': S("select a1, int(a2)", tab='P'),
    'rerr_field': S("update a3 = a1 + 'z'", tab='P'),
    'rerr_sum': S("select SUM(a1)"),
    'warn': S("select a1, NF", tab='P'),
    'init_foo1': S("select a1, foo(a2)", init="def foo(x):\n    return 'F1' + x"),
    'init_foo2': S("select foo(a1), a2", init="def foo(x):\n    return len(x) * 100"),
    'nofoo': S("select a1, foo(a2)"),
    'init_import': S("select string.capwords(a1)", init="import string"),
    'noimport': S("select string.capwords(a1)"),
    'init_raise': S("select a1", init="raise ValueError('boom')"),
    'init_shadow': S("select len(a1), a2", init="def len(x):\n    return 7"),
    'builtins': S("select len(a1), max(3, int(a2)), min(a1, a3), sum([1, NR])"),
    'csv_sel': S("select a.kind, int(a.num) + 1 where a.color != 'blue'", hdr=True, kind='csv'),
    'csv_join': S("select a1, b2, NR join in_b.csv on a1 == b1", kind='csv'),
    'csv_bad': S("select a1 join nosuch.csv on a1 == b1", kind='csv'),
}

# pool for the histories part (all over the 4-record tables)
HIST_POOL = ['sel', 'star', 'ord', 'agg', 'aggnum', 'aggstr', 'dcount', 'distinct', 'unnest', 'top', 'join', 'ljoin_h', 'upd',
             'updjoin', 'except', 'except_h', 'like1', 'like2', 'perr_assign', 'perr_syntax', 'perr_join', 'perr_aggdist',
             'rerr_int', 'rerr_field', 'rerr_sum', 'warn', 'init_foo1', 'init_foo2', 'nofoo', 'init_import', 'noimport',
             'init_raise', 'init_shadow', 'builtins', 'csv_sel', 'csv_join', 'csv_bad']
# sub-pool whose sequences of length 3 are enumerated exhaustively in the quick tier (one scenario of every kind)
HIST_CORE = ['star', 'ord', 'agg', 'aggnum', 'dcount', 'unnest', 'join', 'updjoin', 'except_h', 'like1', 'perr_syntax', 'rerr_int',
             'rerr_sum', 'init_foo1', 'nofoo', 'csv_sel']
# kinds for the interleaving part (pairs of DIFFERENT kinds)
ILV_KINDS = ['sel', 'star', 'ord', 'agg', 'aggnum', 'aggstr', 'dcount', 'unnest', 'top', 'join', 'upd', 'updjoin', 'except_h',
             'like1', 'rerr_int', 'init_foo1', 'init_foo2', 'nofoo']


def akey(sid, r):
    return '%s@%d' % (sid, r)


# --------------------------------------------------------------------------------- running one scenario (in a child)

class Env(object):
    """per-process shared inputs: every scenario run in this process reads the SAME table / header objects"""

    def __init__(self, rbql, eng, rbql_csv, tmp):
        self.rbql, self.eng, self.rbql_csv, self.tmp = rbql, eng, rbql_csv, tmp
        self.tables = {}
        self.B = [list(r) for r in BROWS]
        self.HA = list(HA)
        self.HB = list(HB)

    def table(self, tab, r):
        k = (tab, r)
        if k not in self.tables:
            rows = AROWS if tab == 'A' else PROWS
            src = rows[:r] if not (tab == 'P' and r == 1) else rows[1:2]
            self.tables[k] = [list(x) for x in src]
        return self.tables[k]


class SchedTimeout(BaseException):
    pass


class Sched(object):
    """cooperative deterministic scheduler: order is a sequence of thread ids; one grant = one segment"""

    def __init__(self, order, nthreads, timeout=20.0):
        self.order = list(order)
        self.n = nthreads
        self.timeout = timeout
        self.sems = [threading.Semaphore(0) for _ in range(nthreads)]
        self.ctrl = threading.Semaphore(0)
        self.done = [False] * nthreads
        self.first = [True] * nthreads
        self.trace = []
        self.idx = 0
        self.results = [None] * nthreads
        self.hung = False

    def _next(self):
        """called by the one running thread: who gets the next segment (None: both queries are over)"""
        while self.idx < len(self.order) and self.done[self.order[self.idx]]:
            self.idx += 1
        if self.idx < len(self.order):
            tid = self.order[self.idx]
            self.idx += 1
        elif all(self.done):
            return None
        else:
            tid = self.done.index(False)
        self.trace.append(tid)
        return tid

    def point(self, tid):
        if self.first[tid]:          # query start .. first call is one segment
            self.first[tid] = False
            return
        nxt = self._next()
        if nxt == tid:               # the schedule gives the next segment to the same query: no hand-over needed
            return
        self.sems[nxt].release()
        if not self.sems[tid].acquire(timeout=self.timeout):
            raise SchedTimeout('thread %d never granted' % tid)

    def _body(self, tid, fn):
        try:
            if not self.sems[tid].acquire(timeout=self.timeout):
                raise SchedTimeout('thread %d never started' % tid)
            self.results[tid] = fn(self, tid)
        except BaseException as e:       # harness-level problem (the engine's own exceptions are captured in fn)
            self.results[tid] = {'harness_exc': '%s: %s' % (type(e).__name__, e)}
        finally:
            self.done[tid] = True
            nxt = self._next()
            if nxt is None:
                self.ctrl.release()
            else:
                self.sems[nxt].release()

    def run(self, fns):
        ths = [threading.Thread(target=self._body, args=(i, fns[i]), daemon=True) for i in range(self.n)]
        for t in ths:
            t.start()
        self.sems[self._next()].release()
        if not self.ctrl.acquire(timeout=self.timeout * 1.5):
            self.hung = True
        else:
            for t in ths:
                t.join(self.timeout)
        return self.results


def _mk_sched_classes(eng):
    class SchedIterator(eng.TableIterator):
        def __init__(self, sched, tid, *a, **kw):
            eng.TableIterator.__init__(self, *a, **kw)
            self._sched, self._tid = sched, tid

        def get_record(self):
            self._sched.point(self._tid)
            return eng.TableIterator.get_record(self)

    class SchedWriter(eng.TableWriter):
        def __init__(self, sched, tid, table):
            eng.TableWriter.__init__(self, table)
            self._sched, self._tid = sched, tid

        def write(self, fields):
            self._sched.point(self._tid)
            return eng.TableWriter.write(self, fields)

        def finish(self):
            self._sched.point(self._tid)
            return eng.TableWriter.finish(self)

    class SchedRegistry(eng.RBQLTableRegistry):
        def __init__(self, sched, tid, table, names):
            self._sched, self._tid, self._table, self._names = sched, tid, table, names

        def get_iterator_by_table_id(self, table_id, single_char_alias):
            if table_id not in ('b', 'B'):
                return None
            return SchedIterator(self._sched, self._tid, self._table, self._names, True, single_char_alias)

    return SchedIterator, SchedWriter, SchedRegistry


def _rows(out):
    return [[repr(v) for v in row] if isinstance(row, (list, tuple)) else repr(row) for row in out]


def run_scenario(env, sid, r, sched=None, tid=None):
    sc = SCEN[sid]
    eng = env.eng
    res = {}
    warns = []
    if sc['kind'] == 'csv':
        outp = os.path.join(env.tmp, 'out_%d_%d.csv' % (os.getpid(), threading.get_ident()))
        try:
            env.rbql_csv.query_csv(sc['q'], os.path.join(env.tmp, 'in_a.csv'), ',', 'quoted', outp, ',', 'quoted', 'utf-8', warns, sc['hdr'])
        except Exception as e:
            res['exc'], res['msg'] = type(e).__name__, str(e)
        try:
            with open(outp, 'rb') as f:
                res['out'] = f.read().decode('utf-8', 'replace')
        except IOError:
            res['out'] = None
        try:
            os.unlink(outp)
        except OSError:
            pass
        res['header'] = None
        res['warnings'] = [str(w) for w in warns]
        return res
    table = env.table(sc['tab'], r)
    names = env.HA if sc['hdr'] else None
    jnames = env.HB if sc['hdr'] else None
    out = []
    if sched is None:
        it = eng.TableIterator(table, names)
        wr = eng.TableWriter(out)
    else:
        SI, SW, SR = env.sched_classes
        it = SI(sched, tid, table, names)
        wr = SW(sched, tid, out)
    reg = None
    if sc['join']:
        if sched is not None and sc['bsteps']:
            reg = env.sched_classes[2](sched, tid, env.B, jnames)
        else:
            reg = eng.ListTableRegistry([eng.ListTableInfo('b', env.B, jnames), eng.ListTableInfo('B', env.B, jnames)])
    try:
        eng.query(sc['q'], it, wr, warns, reg, user_init_code=sc['init'])
    except Exception as e:
        res['exc'], res['msg'] = type(e).__name__, str(e)
    res['out'] = _rows(out)
    res['header'] = None if wr.header is None else [repr(x) for x in wr.header]
    res['warnings'] = [str(w) for w in warns]
    return res


def all_orders(n, m):
    """every word with n zeros and m ones, in a fixed order"""
    for pos in itertools.combinations(range(n + m), n):
        s = set(pos)
        yield ''.join('0' if i in s else '1' for i in range(n + m))


def sample_orders(n, m, count, rnd):
    base = ['0'] * n + ['1'] * m
    seen = set()
    res = ['0' * n + '1' * m, '1' * m + '0' * n, ''.join('01'[i % 2] for i in range(2 * min(n, m))) + ('0' * (n - m) if n > m else '1' * (m - n))]
    seen.update(res)
    tries = 0
    while len(res) < count and tries < count * 20:
        tries += 1
        rnd.shuffle(base)
        w = ''.join(base)
        if w not in seen:
            seen.add(w)
            res.append(w)
    return res


def _exec_cmd(cmd, ctx, env):
    op = cmd['op']
    alone = ctx.get('alone') or {}
    if op == 'alone':
        return run_scenario(env, cmd['sid'], cmd['r'])
    if op == 'steps':
        sch = Sched([], 1)
        res = sch.run([lambda s, t: run_scenario(env, cmd['sid'], cmd['r'], s, t)])
        return {'n': len(sch.trace), 'res': res[0], 'hung': sch.hung}
    if op == 'seq':
        return [run_scenario(env, sid, r) for sid, r in cmd['items']]
    if op == 'long':
        fails, nq, hist = [], 0, []
        deadline = cmd.get('deadline')
        truncated = False
        for seq in cmd['seqs']:
            if deadline and time.time() > deadline:
                truncated = True
                break
            for j, sid in enumerate(seq):
                res = run_scenario(env, sid, 4)
                hist.append(sid)
                nq += 1
                exp = alone[akey(sid, 4)]
                if res != exp:
                    fails.append({'sid': sid, 'seq': seq[:j + 1], 'pos': len(hist), 'expected': exp, 'observed': res})
                    break
            if len(fails) >= MAXFAIL:
                break
        return {'fails': fails, 'nq': nq, 'truncated': truncated, 'hist': hist if fails else []}
    if op == 'ilv':
        (sa, ra), (sb, rb) = cmd['a'], cmd['b']
        n, m = cmd['n'], cmd['m']
        if cmd['mode'] == 'all':
            orders = all_orders(n, m)
        elif cmd['mode'] == 'sample':
            orders = sample_orders(n, m, cmd['count'], random.Random(cmd['seed']))
        else:
            orders = cmd['orders']
        limit = cmd.get('limit')
        deadline = cmd.get('deadline')
        fails, ns, truncated = [], 0, False
        ea, eb = alone[akey(sa, ra)], alone[akey(sb, rb)]
        for k, order in enumerate(orders):
            if limit is not None and k >= limit:
                break
            if deadline and (k & 31) == 0 and time.time() > deadline:
                truncated = True
                break
            sch = Sched([int(c) for c in order], 2)
            res = sch.run([lambda s, t: run_scenario(env, sa, ra, s, t), lambda s, t: run_scenario(env, sb, rb, s, t)])
            ns += 1
            bad = None
            if sch.hung:
                bad = (0, ea, {'hung': True, 'partial': res})
            elif res[0] != ea:
                bad = (0, ea, res[0])
            elif res[1] != eb:
                bad = (1, eb, res[1])
            if bad is not None:
                fails.append({'index': k, 'order': order, 'trace': ''.join(str(x) for x in sch.trace), 'thread': bad[0],
                              'sid': (sa, sb)[bad[0]], 'expected': bad[1], 'observed': bad[2]})
                if len(fails) >= 2 or sch.hung:
                    break
        return {'fails': fails, 'ns': ns, 'truncated': truncated}
    raise ValueError('unknown op %r' % op)


def _fork_run(cmd, ctx, mods):
    rfd, wfd = os.pipe()
    sys.stdout.flush()
    sys.stderr.flush()
    pid = os.fork()
    if pid == 0:
        code = 0
        try:
            os.close(rfd)
            signal.alarm(int(cmd.get('timeout', 280)))
            try:
                env = Env(mods[0], mods[1], mods[2], ctx.get('tmp'))
                env.sched_classes = _mk_sched_classes(mods[1])
                res = _exec_cmd(cmd, ctx, env)
            except BaseException:
                res = {'crash': traceback.format_exc()[-1500:]}
            data = json.dumps(res, default=repr).encode('utf-8')
            with os.fdopen(wfd, 'wb') as f:
                f.write(data)
        except BaseException:
            code = 3
        finally:
            os._exit(code)
    os.close(wfd)
    chunks = []
    with os.fdopen(rfd, 'rb') as f:
        while True:
            b = f.read(1 << 16)
            if not b:
                break
            chunks.append(b)
    _, status = os.waitpid(pid, 0)
    try:
        return json.loads(b''.join(chunks).decode('utf-8'))
    except ValueError:
        return {'crash': 'child ended without a result (wait status %d)' % status}


def _worker_main():
    req = json.load(sys.stdin)
    rbql, eng = load_rbql()
    from rbql import rbql_csv
    assert eng.__file__.startswith(os.path.join(REPO, 'rbql-py')), eng.__file__
    assert rbql_csv.__file__.startswith(os.path.join(REPO, 'rbql-py')), rbql_csv.__file__
    out = [_fork_run(cmd, req['ctx'], (rbql, eng, rbql_csv)) for cmd in req['cmds']]
    sys.stdout.write(json.dumps(out))
    sys.stdout.flush()


# ----------------------------------------------------------------------------------------------- orchestration (job)

class Pool(object):
    def __init__(self, tmp):
        self.tmp = tmp
        self.env = dict(os.environ)
        self.env['PYTHONPATH'] = VERIF_DIR
        self.env['PYTHONHASHSEED'] = '0'
        self.env['HOME'] = tmp                       # query_csv looks for ~/.rbql_init_source.py
        self.env['RBQL_REPO'] = REPO
        self.ctx = {'tmp': tmp}

    def start(self, cmds, with_alone=True):
        ctx = dict(self.ctx)
        if not with_alone:
            ctx.pop('alone', None)
        p = subprocess.Popen([sys.executable, '-W', 'ignore', '-c', 'import %s as m; m._worker_main()' % __name__],
                             stdin=subprocess.PIPE, stdout=subprocess.PIPE, stderr=subprocess.PIPE, env=self.env, cwd=self.tmp)
        return p, json.dumps({'ctx': ctx, 'cmds': cmds}).encode('utf-8')

    def run_many(self, batches, timeout):
        """one worker process per batch of commands, all in parallel; returns list of result lists"""
        procs = [self.start(b) for b in batches]
        results = [None] * len(procs)
        errs = []

        def feed(i):
            p, data = procs[i]
            try:
                o, e = p.communicate(data, timeout=timeout)
                if p.returncode != 0:
                    raise RuntimeError('worker exit %s: %s' % (p.returncode, e.decode('utf-8', 'replace')[-1200:]))
                results[i] = json.loads(o.decode('utf-8'))
            except BaseException as ex:
                errs.append('%s: %s' % (type(ex).__name__, ex))
                try:
                    p.kill()
                    p.communicate()
                except Exception:
                    pass

        ths = [threading.Thread(target=feed, args=(i,), daemon=True) for i in range(len(procs))]
        for t in ths:
            t.start()
        for t in ths:
            t.join(timeout + 30)
        if errs or any(r is None for r in results):
            raise RuntimeError('worker failure: %s' % '; '.join(errs or ['no result']))
        return results

    def run(self, cmds, timeout=120):
        return self.run_many([cmds], timeout)[0]


def _mktmp():
    tmp = tempfile.mkdtemp(prefix='rbql_verif_c16_')
    with open(os.path.join(tmp, 'in_a.csv'), 'w') as f:
        f.write(CSV_A)
    with open(os.path.join(tmp, 'in_b.csv'), 'w') as f:
        f.write(CSV_B)
    return tmp


def _hist_sequences(tier, rnd):
    P = HIST_POOL
    seqs = [[a] for a in P] + [[a, b] for a in P for b in P]
    if tier == 'quick':
        seqs += [list(t) for t in itertools.product(HIST_CORE, repeat=3)]
        seqs += [[rnd.choice(P) for _ in range(3)] for _ in range(1500)]
        seqs += [[rnd.choice(P) for _ in range(rnd.randint(4, 6))] for _ in range(400)]
        rule = ('all sequences of <= 2 scenarios over a pool of %d, all sequences of 3 over a core pool of %d, 1500 seeded sequences of 3 and '
                '400 seeded sequences of 4-6 over the full pool' % (len(P), len(HIST_CORE)))
    else:
        seqs += [list(t) for t in itertools.product(P, repeat=3)]
        seqs += [[rnd.choice(P) for _ in range(rnd.randint(4, 6))] for _ in range(12000)]
        rule = 'all sequences of <= 3 scenarios over a pool of %d and 12000 seeded sequences of 4-6' % len(P)
    return seqs, rule


def _ilv_plan(tier, rnd, steps):
    """list of ilv commands (without deadline): (cost, cmd)"""
    pairs = [(a, b) for i, a in enumerate(ILV_KINDS) for b in ILV_KINDS[i + 1:]]
    plan = []

    def nsched(a, b, r):
        return math.comb(steps[akey(a, r)] + steps[akey(b, r)], steps[akey(a, r)])

    def add(a, b, r, mode, count=None):
        n, m = steps[akey(a, r)], steps[akey(b, r)]
        cmd = {'op': 'ilv', 'a': [a, r], 'b': [b, r], 'n': n, 'm': m, 'mode': mode}
        if mode == 'sample':
            cmd['count'] = count
            cmd['seed'] = rnd.randrange(1 << 30)
            plan.append((min(count, nsched(a, b, r)), cmd))
        else:
            plan.append((nsched(a, b, r), cmd))

    if tier == 'quick':
        for a, b in pairs:
            add(a, b, 1, 'all')
        chosen = rnd.sample(pairs, 6)
        for a, b in chosen:
            if nsched(a, b, 2) <= 1000:
                add(a, b, 2, 'all')
            else:
                add(a, b, 2, 'sample', 300)
        for a, b in rnd.sample(pairs, 6):
            add(a, b, 4, 'sample', 100)
        rule = ('all %d pairs of different kinds over 1-record tables: every interleaving; 6 seeded pairs over 2-record tables: every '
                'interleaving (300 seeded ones if there are more than 1000); 6 seeded pairs over 4-record tables: 100 seeded interleavings each' % len(pairs))
    else:
        jb = [('joinb', b) for b in ('updjoin', 'except_h', 'agg', 'star', 'upd')]
        for a, b in pairs + jb:
            add(a, b, 1, 'all')
        for a, b in pairs:
            if nsched(a, b, 2) <= 1000:
                add(a, b, 2, 'all')
            else:
                add(a, b, 2, 'sample', 400)
        for a, b in jb:
            add(a, b, 2, 'sample', 400)
        for a, b in rnd.sample(pairs, 4):
            if nsched(a, b, 3) <= 13000:
                add(a, b, 3, 'all')
            else:
                add(a, b, 3, 'sample', 3000)
        for a, b in pairs:
            add(a, b, 3, 'sample', 150)
            add(a, b, 4, 'sample', 150)
        rule = ('all %d pairs of different kinds (+5 pairs with a scheduled join-table reader): every interleaving over 1-record and 2-record '
                'tables (C(n+m,n) <= 924 each; the UNNEST pairs over 2 records exceed that: 400 seeded interleavings); 4 seeded pairs over 3-record tables: every interleaving (3000 seeded ones if there are more than 13000); every pair: 150 '
                'seeded interleavings over 3-record and over 4-record tables' % len(pairs))
    return plan, rule


def _short(res):
    s = json.dumps(res, default=repr)
    return res if len(s) <= 1500 else s[:1500] + '...'


def _hist_candidates(f):
    """short sequences to try in fresh interpreters: the in-process sequence, every pair (y, failing scenario), then growing
    suffixes of the long history that preceded the failure"""
    sid = f['sid']
    hist = f['hist'][:f['pos']]
    cands = []
    seen = set()

    def addc(seq):
        t = tuple(seq)
        if t not in seen and seq:
            seen.add(t)
            cands.append(list(seq))

    addc(f['seq'])
    for y in HIST_POOL:
        addc([y, sid])
    for k in (3, 4, 5, 6, 12, 25, 50, 100, 200, 400):
        if k < len(hist):
            addc(hist[-k:])
    addc(hist)
    return cands


def _replay_pool():
    tmp = _mktmp()
    return tmp, Pool(tmp)


def replay_hist(case):
    tmp, pool = _replay_pool()
    try:
        seq = case['seq']
        last = seq[-1]
        r = pool.run([{'op': 'alone', 'sid': last[0], 'r': last[1]}, {'op': 'seq', 'items': seq}])
        exp, obs = r[0], (r[1][-1] if isinstance(r[1], list) else r[1])
        return {'fails': exp != obs, 'expected': exp, 'observed': obs}
    finally:
        shutil.rmtree(tmp, ignore_errors=True)


def replay_ilv(case):
    tmp, pool = _replay_pool()
    try:
        a, b = case['a'], case['b']
        al = pool.run([{'op': 'alone', 'sid': a[0], 'r': a[1]}, {'op': 'alone', 'sid': b[0], 'r': b[1]}])
        pool.ctx['alone'] = {akey(a[0], a[1]): al[0], akey(b[0], b[1]): al[1]}
        cmd = dict(case['cmd'])
        cmd.pop('deadline', None)
        r = pool.run([cmd], timeout=250)[0]
        if r.get('crash'):
            return {'fails': True, 'expected': 'no crash', 'observed': r}
        if r['fails']:
            return {'fails': True, 'expected': r['fails'][0]['expected'], 'observed': r['fails'][0]['observed'], 'order': r['fails'][0]['order']}
        return {'fails': False, 'expected': al, 'observed': 'both results equal the alone results in %d schedule(s)' % r['ns']}
    finally:
        shutil.rmtree(tmp, ignore_errors=True)


@job('C16')
def query_isolation(prop, tier, seed):
    t_start = time.time()
    budget = 17.0 if tier == 'quick' else 200.0
    deadline = t_start + budget
    rnd = random.Random(seed)
    tmp = _mktmp()
    fails, assumptions, samples = [], [], []
    n_eval = 0
    exhaustive = True
    try:
        pool = Pool(tmp)
        # ---- round 1: alone results (the expectation) and segment counts
        sizes = (1, 2, 4) if tier == 'quick' else (1, 2, 3, 4)
        ilv_ids = ILV_KINDS + ([] if tier == 'quick' else ['joinb'])
        cmds = [{'op': 'alone', 'sid': s, 'r': 4} for s in HIST_POOL]
        keys = [akey(s, 4) for s in HIST_POOL]
        for s in ilv_ids:
            for r in sizes:
                if akey(s, r) not in keys:
                    cmds.append({'op': 'alone', 'sid': s, 'r': r})
                    keys.append(akey(s, r))
        ncmd_alone = len(cmds)
        stepkeys = []
        for s in ilv_ids:
            for r in sizes:
                cmds.append({'op': 'steps', 'sid': s, 'r': r})
                stepkeys.append(akey(s, r))
        half = (len(cmds) + 1) // 2
        r1 = pool.run_many([cmds[:half], cmds[half:]], timeout=60)
        r1 = r1[0] + r1[1]
        for c, r in zip(cmds, r1):
            if isinstance(r, dict) and r.get('crash'):
                raise RuntimeError('round 1 %r crashed: %s' % (c, r['crash']))
        alone = dict(zip(keys, r1[:ncmd_alone]))
        n_eval += len(cmds)
        steps = {}
        for k, r in zip(stepkeys, r1[ncmd_alone:]):
            steps[k] = r['n']
            if r['res'] != alone[k] or r['hung']:
                sid, rr = k.split('@')
                fails.append({'replay': 'none', 'key': 'solo-scheduled:' + k, 'scenario': SCEN[sid], 'expected': _short(alone[k]), 'observed': _short(r),
                              'note': 'alone under the scheduling iterator/writer differs from alone with the plain TableIterator/TableWriter'})
        # sanity of the pool itself: every scenario must be of the kind it is meant to be (otherwise the job checks nothing)
        kinds_seen = {'ok': 0, 'exc': 0}
        for k, r in alone.items():
            kinds_seen['exc' if 'exc' in r else 'ok'] += 1
        pool.ctx['alone'] = alone
        samples.append({'alone': {k: alone[k] for k in ('agg@4', 'rerr_int@4', 'nofoo@4')}})

        # ---- round 2: histories (long) and interleavings, spread over NWORKERS workers
        seqs, hrule = _hist_sequences(tier, rnd)
        plan, irule = _ilv_plan(tier, rnd, steps)
        nw = NWORKERS.get(tier, 8)
        batches = [[] for _ in range(nw)]
        load = [0.0] * nw
        for w in range(nw):
            part = seqs[w::nw]
            batches[w].append({'op': 'long', 'seqs': part, 'deadline': deadline, 'timeout': int(budget) + 20})
            load[w] += sum(len(s) for s in part) * 0.5
        for cost, cmd in sorted(plan, key=lambda x: -x[0]):
            w = load.index(min(load))
            c = dict(cmd)
            c['deadline'] = deadline
            c['timeout'] = int(budget) + 20
            batches[w].append(c)
            load[w] += cost * 1.2 + 3
        r2 = pool.run_many(batches, timeout=budget + 25)
        n_hist_q = n_sched = 0
        hist_fails, ilv_fails = [], []
        for b, rs in zip(batches, r2):
            for c, r in zip(b, rs):
                if r.get('crash'):
                    fails.append({'replay': 'none', 'key': 'child-crash:' + c['op'], 'expected': 'command completes', 'observed': r['crash'],
                                  'command': {k: v for k, v in c.items() if k != 'seqs'}})
                    continue
                if r.get('truncated'):
                    exhaustive = False
                    assumptions.append('time budget reached: command %s %s was cut short' % (c['op'], c.get('a', '')))
                if c['op'] == 'long':
                    n_hist_q += r['nq']
                    for f in r['fails']:
                        f['hist'] = r['hist']
                        hist_fails.append(f)
                else:
                    n_sched += r['ns']
                    for f in r['fails']:
                        ilv_fails.append((c, f))
        n_eval += n_hist_q + 2 * n_sched
        samples.append({'history': seqs[len(seqs) // 2], 'interleaving': plan[0][1] if plan else None})

        # ---- round 3: confirm / minimise in fresh interpreters (only when something failed)
        hsel, seen_sid = [], set()
        for f in sorted(hist_fails, key=lambda f: (len(f['seq']), f['pos'], f['sid'])):
            if f['sid'] not in seen_sid:
                seen_sid.add(f['sid'])
                hsel.append(f)
        isel, seen_keys = [], set()
        for c, f in ilv_fails:
            key = 'ilv:%s|%s:r=%d' % (c['a'][0], c['b'][0], c['a'][1])
            if key not in seen_keys:
                seen_keys.add(key)
                isel.append((key, c, f))
        room = max(MAXFAIL - len(fails), 0)
        nh = min(len(hsel), max(room - min(len(isel), 2), 0))
        ni = min(len(isel), room - nh)
        hsel, isel = hsel[:nh], isel[:ni]
        if hsel or isel:
            hc = [_hist_candidates(f) for f in hsel]
            batches3 = [[{'op': 'seq', 'items': [[x, 4] for x in c]} for c in cands] for cands in hc]
            batches3 += [[{'op': 'ilv', 'a': c['a'], 'b': c['b'], 'n': c['n'], 'm': c['m'], 'mode': 'list', 'orders': [f['order']]}] for _k, c, f in isel]
            r3 = pool.run_many(batches3, timeout=60)
            for f, cands, rs in zip(hsel, hc, r3[:nh]):
                exp = alone[akey(f['sid'], 4)]
                hit = [(c, r[-1]) for c, r in zip(cands, rs) if isinstance(r, list) and r and r[-1] != exp]
                if hit:
                    seq, obs = hit[0]
                    key = 'hist:' + ('>'.join(seq) if len(seq) <= 6 else 'long(%d)>%s' % (len(seq), seq[-1]))
                    fails.append({'replay': 'hist', 'key': key, 'seq': [[x, 4] for x in seq], 'queries': [SCEN[x]['q'] for x in seq[-6:]],
                                  'expected': _short(exp), 'observed': _short(obs)})
                else:
                    fails.append({'replay': 'none', 'key': 'hist-unconfirmed:' + f['sid'], 'seq_in_process': f['seq'],
                                  'history_tail': f['hist'][max(0, f['pos'] - 12):f['pos']], 'expected': _short(f['expected']), 'observed': _short(f['observed']),
                                  'note': 'differs inside a long history of %d queries; no shorter sequence reproduced it in a fresh interpreter' % f['pos']})
            for (key, c, f), rs in zip(isel, r3[nh:]):
                a, b = c['a'], c['b']
                if rs[0].get('fails'):
                    cmd, ff = batches3[nh + isel.index((key, c, f))][0], rs[0]['fails'][0]
                else:                      # needs the schedules that ran before it in the same process: replay re-runs that prefix
                    cmd = {k: v for k, v in c.items() if k not in ('deadline', 'timeout')}
                    cmd['limit'] = f['index'] + 1
                    ff = f
                fails.append({'replay': 'ilv', 'key': key, 'a': a, 'b': b, 'queries': [SCEN[a[0]]['q'], SCEN[b[0]]['q']], 'cmd': cmd, 'order': ff['order'],
                              'differing_query': ff['sid'], 'expected': _short(ff['expected']), 'observed': _short(ff['observed']),
                              'note': 'order = which query (0/1) gets each next segment; a segment ends at the entry of the next get_record/write/finish'})
    finally:
        shutil.rmtree(tmp, ignore_errors=True)
    return {'job': 'query_isolation', 'evaluations': n_eval, 'distinct_nontrivial': n_hist_q + n_sched, 'exhaustive': False,
            'rule': 'expectation = result alone in a fresh interpreter (forked from a process that only imported rbql). HISTORIES: ' + hrule +
                    ', run back to back in %d processes over shared 4-record in-memory tables (+3 CSV scenarios); %d queries. INTERLEAVINGS: ' % (nw, n_hist_q) +
                    irule + '; two threads under a cooperative scheduler yielding at the entry of every get_record/write/finish, shared input tables; %d schedules. '
                    'Complete within the stated bound: %s' % (n_sched, exhaustive),
            'failures': fails[:MAXFAIL], 'samples': samples,
            'assumptions': assumptions + ['scenario pool: %d succeed alone, %d raise alone' % (kinds_seen['ok'], kinds_seen['exc']),
                                          'not checked: init code with deliberate side effects on the interpreter (e.g. a `global` statement in init code binds the name in the rbql_engine module namespace and stays visible to later queries), pandas/sqlite/CLI entry points, preemption between scheduler points']}
