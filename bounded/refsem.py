"""Executable reference semantics of RBQL queries (written from the property statements C01-C07, not
from the code) used by the bounded stand-ins: query text -> result, compared with the real engine.

BOUNDED: these jobs enumerate small domains; they stand in for the regex/parser driven text
rewriting (translate_*, separate_actions, replace_star_vars, parse_join_expression ...) that the
deductive verifier cannot reach, and they supply real failing inputs when an obligation fails.
"""
import itertools
import os
import sys

REPO = os.environ.get('RBQL_REPO', '/repo')


def load_rbql():
    p = os.path.join(REPO, 'rbql-py')
    if p not in sys.path:
        sys.path.insert(0, p)
    for m in list(sys.modules):
        if m == 'rbql' or m.startswith('rbql.'):
            f = getattr(sys.modules[m], '__file__', '') or ''
            if not f.startswith(p):
                del sys.modules[m]
    import rbql
    from rbql import rbql_engine
    assert rbql_engine.__file__.startswith(p), rbql_engine.__file__
    return rbql, rbql_engine


class Query(object):
    """language-level description of a query with Python-evaluable expression parts"""

    def __init__(self, items=None, where=None, order=None, desc=False, distinct='', top=None, limit=None, join=None,
                 group=None, update=None, except_cols=None, spelling=None):
        self.items = items          # list of (expr_text, alias|None) ; expr_text in {'*','a.*','b.*'} for stars
        self.where = where
        self.order = order          # expression text or None
        self.desc = desc
        self.distinct = distinct    # '', 'distinct', 'count'
        self.top = top
        self.limit = limit
        self.join = join            # (kind, [(lhs, rhs)]) kind in JOIN/INNER JOIN/LEFT JOIN/LEFT OUTER JOIN/STRICT LEFT JOIN
        self.group = group
        self.update = update        # [(field_no, rhs_text)]
        self.except_cols = except_cols   # list of field numbers

    def render(self):
        if self.update is not None:
            q = 'update ' + ', '.join('a%d = %s' % (n, rhs) for n, rhs in self.update)
        else:
            q = 'select '
            if self.top is not None:
                q += 'top %d ' % self.top
            if self.distinct == 'distinct':
                q += 'distinct '
            elif self.distinct == 'count':
                q += 'distinct count '
            if self.except_cols is not None:
                q += '* except ' + ', '.join('a%d' % c for c in self.except_cols)
            else:
                q += ', '.join(e if al is None else '%s as %s' % (e, al) for e, al in self.items)
        if self.join is not None:
            kind, pairs = self.join
            q += ' %s b on %s' % (kind.lower(), ' and '.join('%s == %s' % p for p in pairs))
        if self.where is not None:
            q += ' where ' + self.where
        if self.group is not None:
            q += ' group by ' + self.group
        if self.order is not None:
            q += ' order by ' + self.order + (' desc' if self.desc else '')
        if self.limit is not None:
            q += ' limit %d' % self.limit
        return q


class RefError(Exception):
    def __init__(self, kind, record=None):
        Exception.__init__(self, kind)
        self.kind = kind
        self.record = record


class _Unnest(object):
    def __init__(self, vals):
        self.vals = vals


def _env(rec, nr, brec=None, bnr=None, nu=0):
    env = {'NR': nr, 'NF': len(rec), 'aNR': nr, 'NU': nu, 'record_a': rec}
    for i in range(8):
        env['a%d' % (i + 1)] = rec[i] if i < len(rec) else None
    if brec is not None or bnr is not None:
        env['bNR'] = bnr
        for i in range(8):
            env['b%d' % (i + 1)] = (brec[i] if (brec is not None and i < len(brec)) else None)
    class _A(object):
        def __init__(self, r):
            self.r = r

        def __getitem__(self, n):
            return self.r[n - 1] if (self.r is not None and 1 <= n <= len(self.r)) else None
    env['a'] = _A(rec)
    env['b'] = _A(brec)
    env['UNNEST'] = _Unnest
    env['unnest'] = _Unnest
    return env


def _eval(expr, env, nr):
    try:
        return eval(expr, {'__builtins__': __builtins__}, env)
    except Exception as e:
        raise RefError('runtime', nr)


def join_pairs(q, A, B):
    """C04: list of (a_rec, nr, b_rec|None, bnr|None) in A-then-B order"""
    if q.join is None:
        return [(r, i + 1, None, None) for i, r in enumerate(A)]
    kind, pairs = q.join
    out = []

    def akey(rec, nr):
        ks = []
        for lhs, rhs in pairs:
            if lhs in ('NR', 'aNR', 'a.NR'):
                ks.append(nr)
            else:
                n = int(lhs[1:])
                if n > len(rec):
                    raise RefError('runtime', nr)
                ks.append(rec[n - 1])
        return tuple(ks)

    def bkey(rec, nr):
        ks = []
        for lhs, rhs in pairs:
            if rhs in ('bNR', 'b.NR'):
                ks.append(nr)
            else:
                n = int(rhs[1:])
                if n > len(rec):
                    raise RefError('runtime_b', nr)
                ks.append(rec[n - 1])
        return tuple(ks)
    bkeys = [bkey(r, j + 1) for j, r in enumerate(B)]
    maxlen = max([0] + [len(r) for r in B])
    for i, r in enumerate(A):
        k = akey(r, i + 1)
        ms = [(B[j], j + 1) for j in range(len(B)) if bkeys[j] == k]
        if kind.upper() in ('JOIN', 'INNER JOIN'):
            for br, bn in ms:
                out.append((r, i + 1, br, bn))
        elif kind.upper() in ('LEFT JOIN', 'LEFT OUTER JOIN'):
            if ms:
                for br, bn in ms:
                    out.append((r, i + 1, br, bn))
            else:
                out.append((r, i + 1, [None] * maxlen, None))
        else:
            if len(ms) != 1:
                raise RefError('runtime', i + 1)
            out.append((r, i + 1, ms[0][0], ms[0][1]))
    return out


def reference(q, A, B=None):
    """returns list of output records, or raises RefError"""
    B = B or []
    if q.update is not None:
        return ref_update(q, A, B)
    rows = []       # (sort_key, record)
    pairs = join_pairs(q, A, B)
    for rec, nr, brec, bnr in pairs:
        env = _env(rec, nr, brec, bnr)
        if q.where is not None and not _eval(q.where, env, nr):
            continue
        if q.except_cols is not None:
            out = [v for i, v in enumerate(rec) if (i + 1) not in q.except_cols]
            outs = [out]
        else:
            out = []
            unnest_pos = None
            for e, al in q.items:
                if e == '*':
                    out.extend(list(rec) + (list(brec) if brec is not None else []))
                elif e == 'a.*':
                    out.extend(list(rec))
                elif e == 'b.*':
                    out.extend(list(brec))
                else:
                    v = _eval(e, env, nr)
                    if isinstance(v, _Unnest):
                        if unnest_pos is not None:
                            raise RefError('parsing', nr)
                        unnest_pos = len(out)
                    out.append(v)
            if unnest_pos is None:
                outs = [out]
            else:
                outs = []
                for v in out[unnest_pos].vals:
                    o = list(out)
                    o[unnest_pos] = v
                    outs.append(o)
        sk = _eval('(' + q.order + ',)', env, nr) if q.order is not None else None
        for o in outs:
            rows.append((sk, o))
    if q.order is not None:
        asc = sorted(rows, key=lambda x: x[0])      # stable
        rows = list(reversed(asc)) if q.desc else asc
    recs = [r for _, r in rows]
    if q.distinct == 'distinct':
        seen = []
        out = []
        for r in recs:
            if tuple(r) not in seen:
                seen.append(tuple(r))
                out.append(r)
        recs = out
    elif q.distinct == 'count':
        seen = []
        for r in recs:
            if tuple(r) not in seen:
                seen.append(tuple(r))
        recs = [[sum(1 for x in recs if tuple(x) == s)] + list(s) for s in seen]
    n = q.top if q.top is not None else q.limit
    if q.limit is not None:
        n = q.limit
    if n is not None:
        recs = recs[:n]
    return recs


def ref_update(q, A, B):
    out = []
    nu = 0
    if q.join is None:
        pairs = [(r, i + 1, None, None, 1) for i, r in enumerate(A)]
    else:
        kind, _ = q.join
        jp = {}
        q2 = Query(items=[], join=('LEFT JOIN', q.join[1]))
        allp = join_pairs(q2, A, B)
        pairs = []
        for i, r in enumerate(A):
            ms = [p for p in allp if p[1] == i + 1 and p[3] is not None]
            if len(ms) > 1:
                raise RefError('runtime', i + 1)
            if len(ms) == 1:
                pairs.append((r, i + 1, ms[0][2], ms[0][3], 1))
            else:
                if kind.upper().startswith('STRICT'):
                    raise RefError('runtime', i + 1)
                if kind.upper().startswith('LEFT'):
                    # C04: LEFT JOIN pairs an unmatched A record with the all-None B record, and UPDATE
                    # sees the paired records "exactly as if A had been expanded this way"
                    nullrec = [p for p in allp if p[1] == i + 1][0][2]
                    pairs.append((r, i + 1, nullrec, None, 1))
                else:
                    pairs.append((r, i + 1, None, None, 0))
    for rec, nr, brec, bnr, matched in pairs:
        env = _env(rec, nr, brec, bnr, nu)
        new = list(rec)
        if matched and (q.where is None or _eval(q.where, env, nr)):
            nu += 1
            env['NU'] = nu
            for n, rhs in q.update:
                v = _eval(rhs, env, nr)
                if n > len(rec):
                    raise RefError('runtime', nr)
                new[n - 1] = v
        out.append(new)
    return out


def run_real(qtext, A, B=None, names_a=None, names_b=None, want_header=False):
    """runs the real engine on deep copies; returns ('ok', rows, header, warnings) or ('error', class_name, message)"""
    import copy
    rbql, eng = load_rbql()
    A2 = copy.deepcopy(A)
    B2 = copy.deepcopy(B) if B is not None else None
    out = []
    warnings = []
    hdr = []
    try:
        eng.query_table(qtext, A2, out, warnings, B2, names_a, names_b, hdr)
    except Exception as e:
        return ('error', type(e).__name__, str(e), A2, B2)
    return ('ok', out, hdr, warnings, A2, B2)
