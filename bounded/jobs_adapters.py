"""BOUNDED stand-in for the pandas and sqlite adapters (rbql_pandas.py, rbql_sqlite.py): differential against the list front end.

The list front end (TableIterator / TableWriter / query_table) is under contract; the adapters sit on pandas and sqlite3 (A-DEP) and have
only the syntactic source-frame obligations.  Rule (C13 read on typed data, C05/C07/C09 seen through the adapters): a dataframe / sqlite
table and the list of its rows (as itertuples / the cursor yields them) under its column names (str of each label; none for a RangeIndex)
give the same output rows -- same values AND same Python types -- and the same header through query_pandas_dataframe /
query_sqlite_to_csv as through query_table.  One /venv subprocess (pandas lives there); never counted as proved."""
import json
import os
import shutil
import subprocess
import tempfile

from .registry import job
from .refsem import REPO

VENV_PY = '/venv/bin/python'

DRIVER = r'''
import sys, os, json, sqlite3, tempfile
tree = sys.argv[1]
sys.path.insert(0, os.path.join(tree, 'rbql-py'))
import rbql
from rbql import rbql_engine, rbql_pandas, rbql_sqlite, rbql_csv
assert rbql_engine.__file__.startswith(tree), rbql_engine.__file__
assert rbql_pandas.__file__.startswith(tree), rbql_pandas.__file__
import pandas


def as_py(v):
    return v.item() if hasattr(v, 'item') else v


def norm(v):
    v = as_py(v)
    return [type(v).__name__, repr(v)]


def names_of(df):
    return None if (isinstance(df.columns, pandas.RangeIndex) or not len(df.columns)) else [str(c) for c in df.columns]


def rows_of(df):
    return [[as_py(v) for v in t] for t in df.itertuples(index=False)]


def run_pandas(q, df, jdf):
    w = []
    try:
        out = rbql.query_pandas_dataframe(q, df, w, jdf)
        return {'header': names_of(out), 'rows': [[norm(v) for v in t] for t in out.itertuples(index=False)]}
    except Exception as e:
        return {'error': type(e).__name__}


def run_table(q, df, jdf):
    out, w, oh = [], [], []
    try:
        rbql.query_table(q, rows_of(df), out, w, None if jdf is None else rows_of(jdf), names_of(df), None if jdf is None else names_of(jdf), oh)
        return {'header': (oh if oh else None), 'rows': [[norm(v) for v in r] for r in out]}
    except Exception as e:
        return {'error': type(e).__name__}


def mk(spec):
    if spec is None:
        return None
    if spec['columns'] is None:
        return pandas.DataFrame(spec['rows'])
    return pandas.DataFrame(spec['rows'], columns=spec['columns'])


inp = json.load(open(sys.argv[2]))
res = {'pandas': [], 'sqlite': []}
for c in inp['pandas']:
    df, jdf = mk(c['frame']), mk(c.get('join'))
    res['pandas'].append({'got': run_pandas(c['query'], df, jdf), 'exp': run_table(c['query'], df, jdf)})

# sqlite: tables created by the statements of the case; expected = query_table over SELECT * rows under the cursor's column names
if sqlite3.sqlite_version_info >= (3, 31, 0):
    tmp = tempfile.mkdtemp(prefix='adapters_sqlite_')
    try:
        for c in inp['sqlite']:
            db = os.path.join(tmp, 'db.sqlite'); outp = os.path.join(tmp, 'out.csv')
            for p in (db, outp):
                if os.path.exists(p):
                    os.remove(p)
            con = sqlite3.connect(db)
            for st in c['setup']:
                con.execute(st)
            con.commit()
            w = []
            try:
                rbql_sqlite.query_sqlite_to_csv(c['query'], con, c['table'], outp, ',', 'quoted', 'utf-8', w)
                got = {'lines': open(outp, 'rb').read().decode('utf-8').splitlines()}
            except Exception as e:
                got = {'error': type(e).__name__}

            def table_of(name):
                cur = con.cursor()
                cur.execute('SELECT * FROM ' + name)
                return [list(r) for r in cur.fetchall()], [d[0] for d in cur.description]
            rows, names = table_of(c['table'])
            jrows, jnames = (None, None) if c.get('join') is None else table_of(c['join'])
            out, ww, oh = [], [], []
            try:
                rbql.query_table(c['query'].replace(' join ' + str(c.get('join')) + ' on ', ' join B on '), rows, out, ww, jrows, names, jnames, oh)
                exp = {'lines': ([','.join(oh)] if oh else []) + [','.join(str(v) for v in r) for r in out]}
            except Exception as e:
                exp = {'error': type(e).__name__}
            con.close()
            res['sqlite'].append({'got': got, 'exp': exp})
    finally:
        import shutil
        shutil.rmtree(tmp, ignore_errors=True)
else:
    res['sqlite'] = None
json.dump(res, open(sys.argv[3], 'w'))
'''


def _frames():
    S = {'columns': ['name', 'kind'], 'rows': [['car', 'red'], ['bus', 'blue'], ['car', 'blue']]}
    N = {'columns': ['id', 'w', 'n'], 'rows': [[1, 1.5, 10], [9007199254740993, 2.5, 20], [3, 0.25, 30]]}
    Y = {'columns': [2019, 2020, 2021], 'rows': [['a', 'b', 'c'], ['d', 'e', 'f']]}
    R = {'columns': None, 'rows': [['x', 'y'], ['z', 'w']]}
    I = {'columns': ['k', 'v'], 'rows': [[1, 100], [2, 200], [2, 300]]}
    return S, N, Y, R, I


def _pandas_cases():
    S, N, Y, R, I = _frames()
    out = []
    common = ['select *', 'select a1, a2', 'select a2, a1', 'select top 1 *', 'select distinct a2', 'select a1 as first, a2', 'select NR, a1', 'select * order by a2',
              'update set a2 = a2', 'update set a1 = a1 where NR == 1', 'select * except a1']
    for fr in (S, N, Y, R, I):
        for q in common:
            out.append({'frame': fr, 'query': q})
    # empty results keep the header (and are empty)
    out.append({'frame': S, 'query': "select a1, a2 where a1 == 'no such'"})
    out.append({'frame': S, 'query': "select * where a1 == 'no such'"})
    out.append({'frame': N, 'query': 'select a1, a3 where a1 < 0'})
    out.append({'frame': R, 'query': "select a1 where a1 == 'no such'"})
    # names: attribute / dictionary spellings, integer labels
    out.append({'frame': S, 'query': 'select a.name, a["kind"]'})
    out.append({'frame': Y, 'query': 'select a1, a[3]'})
    out.append({'frame': Y, 'query': 'select a["2020"], a1 as first'})
    out.append({'frame': N, 'query': 'select a.id, a.n where a.w > 1'})
    # UPDATE on typed data: unassigned fields keep value and type, also above 2**53
    out.append({'frame': N, 'query': 'update set a3 = a3 + 1 where a1 > 1'})
    out.append({'frame': N, 'query': 'update set a2 = 0.5 where a3 == 20'})
    out.append({'frame': I, 'query': 'update set a2 = a2 * 2 where a1 == 2'})
    # aggregates and joins
    out.append({'frame': I, 'query': 'select a1, SUM(a2), COUNT(*) group by a1'})
    out.append({'frame': N, 'query': 'select MAX(a1), MIN(a3)'})
    out.append({'frame': S, 'join': S, 'query': 'select a1, b2 join b on a1 == b1'})
    out.append({'frame': I, 'join': I, 'query': 'select a.k, b.v join b on a.k == b.k'})
    # (no None-producing case: a DataFrame stores None in a numeric column as NaN and turns the column into floats -- pandas' representation, A-DEP)
    out.append({'frame': S, 'join': S, 'query': 'select a1, b2 left join b on a2 == b2'})
    out.append({'frame': Y, 'join': Y, 'query': 'select a1, b[3] join b on a1 == b1'})
    return out


def _sqlite_cases():
    plain = ['CREATE TABLE plain (id INTEGER, code TEXT, name TEXT, "unit price" TEXT)', "INSERT INTO plain VALUES (1, 'C1', 'apple', '10'), (2, 'C2', 'pear', '20')"]
    goods = ['CREATE TABLE goods (id INTEGER, code TEXT GENERATED ALWAYS AS (\'C\' || id) VIRTUAL, name TEXT, "unit price" TEXT)',
             "INSERT INTO goods (id, name, \"unit price\") VALUES (1, 'apple', '10'), (2, 'pear', '20')"]
    out = []
    for table, setup in (('plain', plain), ('goods', plain + goods)):
        for q in ('select *', 'select a.id, a.name, a["unit price"], NR', 'select a.code, a.name', 'select a3, a2 where a1 == 2', 'select a.name where a.id == 7', 'update set a3 = a2'):
            out.append({'setup': setup, 'table': table, 'query': q})
    out.append({'setup': plain + goods, 'table': 'plain', 'join': 'goods', 'query': 'select a.name, b.name, b["unit price"] join goods on a.id == b.id'})
    out.append({'setup': plain + goods, 'table': 'goods', 'join': 'plain', 'query': 'select a.code, b.code join plain on a1 == b1'})
    return out


@job('C05', 'C07', 'C09', 'C13')
def adapters_vs_list_front_end(prop, tier, seed):
    pc, sc = _pandas_cases(), _sqlite_cases()
    tmp = tempfile.mkdtemp(prefix='adapters_')
    fails = []
    try:
        ip, op, dp = os.path.join(tmp, 'in.json'), os.path.join(tmp, 'out.json'), os.path.join(tmp, 'driver.py')
        with open(ip, 'w') as f:
            json.dump({'pandas': pc, 'sqlite': sc}, f)
        with open(dp, 'w') as f:
            f.write(DRIVER)
        env = dict(os.environ)
        env.pop('PYTHONPATH', None)
        p = subprocess.run([VENV_PY, '-W', 'ignore', dp, REPO, ip, op], capture_output=True, text=True, timeout=900, cwd=tmp, env=env)
        if p.returncode != 0:
            raise RuntimeError('adapter driver failed: exit %s: %s' % (p.returncode, p.stderr[-1200:]))
        res = json.load(open(op))
        for c, r in zip(pc, res['pandas']):
            if r['got'] != r['exp']:
                fails.append({'replay': 'none', 'key': 'pandas:%s:%s' % (c['frame']['columns'], c['query']), 'expected': r['exp'], 'observed': r['got']})
        n_sql = 0
        if res['sqlite'] is not None:
            for c, r in zip(sc, res['sqlite']):
                n_sql += 1
                if r['got'] != r['exp']:
                    fails.append({'replay': 'none', 'key': 'sqlite:%s:%s' % (c['table'], c['query']), 'expected': r['exp'], 'observed': r['got']})
    finally:
        shutil.rmtree(tmp, ignore_errors=True)
    n = len(pc) + n_sql
    return {'job': 'adapters_vs_list_front_end', 'evaluations': n, 'distinct_nontrivial': n, 'exhaustive': False,
            'rule': 'pandas: %d (frame, query) cases over 5 frames (strings; ints/floats incl. an int above 2**53; integer labels; RangeIndex; duplicate keys) -- header, values and Python types of '
                    'query_pandas_dataframe == query_table over the itertuples rows under str(label) names; sqlite: %d cases (plain table, table with a generated column, joins) -- '
                    'query_sqlite_to_csv == query_table over SELECT * rows under the cursor column names' % (len(pc), n_sql),
            'failures': fails[:20], 'samples': [pc[0]['query'], pc[-1]['query']],
            'assumptions': ['A-DEP: pandas / sqlite3 behave as installed; the list front end is the oracle (it is under contract)']}
