"""BOUNDED job for C13: the same query over the same string data gives the same result table and header through
every entry point (lists, rbql.query with the engine's own and with user-supplied iterator/writer objects, CSV files
through rbql_csv.query_csv and through `python -m rbql`, pandas dataframes, sqlite tables), plus the command line
contract (exit 0 / only table data on stdout on success; non-zero exit and an `Error [type]` line on stderr on
failure; warnings on stderr).

The expectation is the relation stated by the property: every entry point must produce what rbql.query_table
produces for the same query and data (cells compared as strings, None shown as the empty string, header presence
equalised), and an entry point fails iff query_table fails.  Output files / stdout are parsed with an independent
CSV reader written here (not with the tree's reader); input files are written with an independent writer.

Sampled, not exhaustive; the bound is stated in the 'rule' of the result."""
import itertools
import json
import os
import random
import re
import shutil
import sqlite3
import subprocess
import tempfile
import threading
from concurrent.futures import ThreadPoolExecutor

from .registry import job
from .refsem import load_rbql, REPO

VENV_PY = '/venv/bin/python'
TREE = os.path.join(os.path.abspath(REPO), 'rbql-py')
MAX_FAILS = int(os.environ.get('RBQL_C13_MAX_FAILS', '6'))

# (delimiter, policy): the CSV dialects explored
DIALECTS = [(',', 'quoted'), ('\t', 'simple'), (',', 'quoted_rfc'), (';', 'quoted_rfc'), ('\t', 'quoted'), ('|', 'simple'),
            (';', 'quoted'), (' ', 'whitespace')]
NAMED_FORMATS = {'csv': (',', 'quoted'), 'tsv': ('\t', 'simple')}     # documented meaning of --out-format csv / tsv


def default_policy(delim):
    """documented default split policy of the command line for a delimiter"""
    if delim in (';', ','):
        return 'quoted'
    if delim == ' ':
        return 'whitespace'
    return 'simple'


# ----------------------------------------------------------------------------------------------------------------
# independent CSV codec (the declared dialect, not the tree's code)

def cell_ok(c, delim, policy):
    if '\r' in c:
        return False
    if policy == 'simple':
        return delim not in c and '\n' not in c
    if policy == 'quoted':
        return '\n' not in c
    if policy == 'whitespace':
        return c != '' and ' ' not in c and '\n' not in c
    return policy == 'quoted_rfc'


def representable(records, delim, policy):
    return all(len(r) > 0 and all(cell_ok(c, delim, policy) for c in r) for r in records)


def critical(records, delim, policy):
    """the records need the dialect's quoting to survive"""
    if policy == 'quoted_rfc':
        return any('\n' in c for r in records for c in r)
    if policy == 'quoted':
        return any(delim in c for r in records for c in r)
    return False


def enc_cell(c, delim, policy):
    if policy in ('simple', 'whitespace'):
        return c
    if '"' in c:
        return '"' + c.replace('"', '""') + '"'
    if delim in c or '\n' in c:
        return '"' + c + '"'
    return c


def enc_table(records, delim, policy, eol='\n', final_eol=True):
    lines = [delim.join(enc_cell(c, delim, policy) for c in r) for r in records]
    text = eol.join(lines)
    if lines and (final_eol or lines[-1] == ''):
        text += eol
    return text


def dec_table(text, delim, policy):
    """parse an output table; every record was terminated by a newline; an empty line is one empty field"""
    if text == '':
        return []
    if policy in ('simple', 'whitespace'):
        lines = text.split('\n')
        if lines[-1] == '':
            lines.pop()
        if policy == 'simple':
            return [ln.split(delim) for ln in lines]
        return [re.findall('[^ ]+', ln) for ln in lines]
    recs, rec, i, n = [], [], 0, len(text)
    while i < n:
        if text[i] == '"':
            j, buf = i + 1, []
            while True:
                if j >= n:
                    return [['<unparsable: unterminated quote>', text]]
                if text[j] == '"':
                    if j + 1 < n and text[j + 1] == '"':
                        buf.append('"')
                        j += 2
                        continue
                    j += 1
                    break
                buf.append(text[j])
                j += 1
            if j < n and text[j] != delim and text[j] != '\n':
                return [['<unparsable: text after closing quote>', text]]
            field = ''.join(buf)
        else:
            j = i
            while j < n and text[j] != delim and text[j] != '\n':
                j += 1
            field = text[i:j]
        rec.append(field)
        if j >= n:
            recs.append(rec)
            rec = []
            break
        if text[j] == delim:
            i = j + 1
            if i >= n:
                rec.append('')
                recs.append(rec)
                rec = []
        else:
            recs.append(rec)
            rec = []
            i = j + 1
    return recs


# ----------------------------------------------------------------------------------------------------------------
# generation of tables and queries

L0 = ['x', 'y', 'z', 'ab', 'foo', 'Bar', 'b']
L1 = ['', 'x y', ' lead', 'trail ', ' ']
L2 = ['p,q', 'semi;c', 'pi|pe', 'say "hi"', '"', 'ünï', "it's", 'a\\b', '#c', ',']
L3 = ['tab\there', 'two\nlines', 'q"\n,']
NUMS = ['10', '9', '2', '33']
LITS = ['x', 'y', 'ab', 'x y', 'p,q', 'semi;c', 'pi|pe', 'ünï', '-', ' ', '', 'b']
IDENT_NAMES = ['name', 'city', 'k', 'val', 'n_1', 'Zed', 'tag', 'grp']
ODD_NAMES = ['with space', 'quo"te', 'ünï', 'semi;c', 'co,mma', 'two\nl', 'ta\tb']
ALIASES = ['foo', 'out_1', 'Res']


def gen_table(rnd, ncols, nrows, level):
    pool = list(L0)
    if level >= 1:
        pool += L1
    if level >= 2:
        pool += L2
    if level >= 3:
        pool += L3
    kinds, pools = [], []
    for c in range(ncols):
        kind = rnd.choice(['key', 'key', 'text', 'num'])
        kinds.append(kind)
        if kind == 'num':
            pools.append(rnd.sample(NUMS, 3))
        elif kind == 'key':
            pools.append(rnd.sample(pool, min(3, len(pool))))
        else:
            pools.append(rnd.sample(pool, min(5, len(pool))))
    rows = [[rnd.choice(pools[c]) for c in range(ncols)] for _ in range(nrows)]
    return rows, kinds, pools


def gen_header(rnd, ncols, level, used=()):
    names = [n for n in IDENT_NAMES if n not in used]
    if level >= 2:
        names += [n for n in ODD_NAMES[:5] if n not in used]
    if level >= 3:
        names += [n for n in ODD_NAMES[5:] if n not in used]
    idents = [n for n in IDENT_NAMES if n not in used]
    hdr = rnd.sample(names, ncols)
    if rnd.random() < 0.6:
        hdr[rnd.randrange(ncols)] = rnd.choice([n for n in idents if n not in hdr] or [hdr[0]])
    return hdr if len(set(hdr)) == len(hdr) else rnd.sample(idents, ncols)


def lit(rnd, s=None):
    s = rnd.choice(LITS) if s is None else s
    if '"' in s or "'" in s or '\\' in s or '\n' in s or '\t' in s:
        s = 'x'
    q = rnd.choice(['"', "'"])
    return q + s + q


class QGen(object):
    def __init__(self, rnd, ncols, header, pools, kinds, jn=None):
        self.rnd, self.ncols, self.header, self.pools, self.kinds, self.jn = rnd, ncols, header, pools, kinds, jn

    def col(self, pfx='a', i=None):
        rnd = self.rnd
        if pfx == 'a':
            n, hdr = self.ncols, self.header
        else:
            n, hdr = self.jn['ncols'], self.jn['header']
        i = rnd.randrange(n) if i is None else i
        forms = ['%s%d' % (pfx, i + 1)] * 3
        if rnd.random() < 0.2:
            forms.append('%s[%d]' % (pfx, i + 1))
        if hdr is not None:
            nm = hdr[i]
            if re.match(r'^[a-zA-Z_][a-zA-Z0-9_]*$', nm):
                forms += ['%s.%s' % (pfx, nm)] * 2
            if not re.search(r'["\'\\\n\t]', nm):
                forms.append('%s["%s"]' % (pfx, nm))
        return rnd.choice(forms)

    def vallit(self, i=None):
        rnd = self.rnd
        if i is not None and rnd.random() < 0.7:
            return lit(rnd, rnd.choice(self.pools[i]))
        return lit(rnd)

    def sexpr(self, pfx='a'):
        rnd = self.rnd
        c, c2 = self.col(pfx), self.col(pfx)
        return rnd.choice([c, c, c, '%s + %s' % (c, c2), '%s + %s' % (c, lit(rnd)), '%s + %s' % (lit(rnd), c), '%s.upper()' % c,
                           '%s[:1]' % c, '%s[1:]' % c, '%s * 2' % c, '%s.replace("x", "Q")' % c, '(%s + "-" + %s).lower()' % (c, c2),
                           lit(rnd)])

    def iexpr(self):
        rnd = self.rnd
        c = self.col()
        return rnd.choice(['len(%s)' % c, 'NR', 'NF', 'len(%s) + NR' % c, 'NR * 2'])

    def bexpr(self, depth=0):
        rnd = self.rnd
        i = rnd.randrange(self.ncols)
        c, c2 = self.col('a', i), self.col()
        atoms = ['%s == %s' % (c, self.vallit(i)), '%s != %s' % (c, self.vallit(i)), '%s < %s' % (c, c2), 'len(%s) > 1' % c,
                 '%s in (%s, %s)' % (c, self.vallit(i), self.vallit(i)), 'like(%s, "%s%%")' % (c, rnd.choice(['x', 'a', 'p', '%'])),
                 '%s.startswith(%s)' % (c, lit(rnd, rnd.choice(['x', 'a', 'p', '']))), 'NR > 1', 'NR % 2 == 0', '%s >= %s' % (c, self.vallit(i))]
        if depth < 1 and rnd.random() < 0.3:
            a, b = self.bexpr(1), self.bexpr(1)
            return rnd.choice(['(%s) and (%s)' % (a, b), '(%s) or (%s)' % (a, b), 'not (%s)' % a])
        return rnd.choice(atoms)

    def tail(self, where=0.4, order=0.3):
        rnd = self.rnd
        t = ''
        if rnd.random() < where:
            t += ' where ' + self.bexpr()
        if rnd.random() < order:
            k = rnd.choice([self.sexpr(), self.iexpr(), self.col(), '%s, %s' % (self.col(), self.col())])
            t += ' order by ' + k + rnd.choice(['', '', ' desc', ' asc'])
        return t

    def items(self, allow_star=True, allow_alias=True, pfxs=('a',)):
        rnd = self.rnd
        out = []
        star = False
        for _ in range(rnd.randint(1, 3)):
            r = rnd.random()
            pfx = rnd.choice(pfxs)
            if r < 0.55 or pfx == 'b':
                it = self.sexpr(pfx) if rnd.random() < 0.7 else self.col(pfx)
            elif r < 0.7:
                it = self.iexpr()
            elif r < 0.78:
                it = self.bexpr(1)
            elif allow_star:
                it = rnd.choice(['*', 'a.*'] + (['b.*'] if 'b' in pfxs else []))
                star = True
            else:
                it = self.col(pfx)
            out.append(it)
        if allow_alias and rnd.random() < 0.25 and (self.header is not None or not star):
            k = rnd.randrange(len(out))
            if '*' not in out[k]:
                out[k] += ' as ' + rnd.choice(ALIASES)
        return ', '.join(out)

    def query(self):
        rnd = self.rnd
        if self.jn is not None:
            kind = rnd.choice(['join', 'join', 'inner join', 'left join', 'left join', 'left outer join', 'strict left join'])
            ai, bi = rnd.randrange(self.ncols), rnd.randrange(self.jn['ncols'])
            on = '%s == %s' % (self.col('a', ai), self.col('b', bi))
            if rnd.random() < 0.15 and self.ncols > 1 and self.jn['ncols'] > 1:
                on += ' and a2 == b2' if (ai != 1 and bi != 1) else ' and a1 == b1'
            if rnd.random() < 0.3:
                on = ' == '.join(reversed(on.split(' and ')[0].split(' == '))) + ''.join(' and ' + p for p in on.split(' and ')[1:])
            shape = {'join': 'join', 'inner join': 'join', 'left join': 'leftjoin', 'left outer join': 'leftjoin', 'strict left join': 'strictjoin'}[kind]
            if kind.startswith('left'):
                its = [self.sexpr('a')] + [self.col('b') for _ in range(rnd.randint(1, 2))]
                if rnd.random() < 0.2:
                    its.append(rnd.choice(['*', 'b.*', 'a.*']))
                    if its[-1] != 'a.*':
                        shape = 'leftjoin-star'       # a class of its own: `*` / `b.*` over unmatched records
                its = ', '.join(its)
            else:
                its = self.items(pfxs=('a', 'b'))
            return 'select %s %s b on %s%s' % (its, kind, on, self.tail(0.3, 0.3)), shape
        r = rnd.random()
        if r < 0.34:
            pre = rnd.choice(['', '', '', 'top %d ' % rnd.randint(0, 3), 'distinct ', 'top 2 distinct '])
            post = ' limit %d' % rnd.randint(1, 3) if (not pre and rnd.random() < 0.15) else ''
            shape = 'select' + ('-distinct' if 'distinct' in pre else '') + ('-top' if ('top' in pre or post) else '')
            return 'select %s%s%s%s' % (pre, self.items(), self.tail(), post), shape
        if r < 0.42:
            return 'select distinct count %s%s' % (self.items(allow_star=False, allow_alias=False), self.tail(0.3, 0.0)), 'distinct-count'
        if r < 0.60:
            k = rnd.randrange(self.ncols)
            key = self.col('a', k)
            nums = [i for i, kd in enumerate(self.kinds) if kd == 'num']
            aggs = ['count(*)', 'COUNT(%s)' % self.col(), 'max(len(%s))' % self.col(), 'min(len(%s))' % self.col(), 'sum(len(%s))' % self.col(),
                    'MAX(NR)', 'ANY_VALUE(%s)' % key]
            if nums:
                n = self.col('a', rnd.choice(nums))
                aggs += ['max(%s)' % n, 'min(%s)' % n, 'SUM(%s)' % n, 'max(%s)' % n]
            if rnd.random() < 0.1:
                aggs.append('max(%s)' % self.col())      # non-numeric strings: must fail the same way everywhere
            chosen = [rnd.choice(aggs) for _ in range(rnd.randint(1, 2))]
            if rnd.random() < 0.25:
                q = 'select %s' % ', '.join(chosen)
            else:
                lead = rnd.choice([key, key, '%s.upper()' % key])
                its = [lead] + chosen
                if rnd.random() < 0.2:
                    its[-1] += ' as ' + rnd.choice(ALIASES)
                q = 'select %s' % ', '.join(its)
                if rnd.random() < 0.3:
                    q += ' where ' + self.bexpr()
                q += ' group by ' + key
                return q, 'group'
            if rnd.random() < 0.3:
                q += ' where ' + self.bexpr()
            return q, 'aggregate'
        if r < 0.75:
            k = rnd.randrange(self.ncols)
            sets = ['%s = %s' % (self.col('a', k), self.sexpr())]
            if self.ncols > 1 and rnd.random() < 0.3:
                sets.append('%s = %s' % (self.col('a', (k + 1) % self.ncols), self.sexpr()))
            q = 'update %s%s' % (rnd.choice(['', 'set ']), ', '.join(sets))
            if rnd.random() < 0.6:
                q += ' where ' + self.bexpr()
            return q, 'update'
        if r < 0.87 and self.ncols > 1:          # (a result table without columns is not representable as CSV: not explored)
            cols = rnd.sample(range(self.ncols), rnd.randint(1, max(1, self.ncols - 1)))
            return 'select * except %s%s' % (', '.join(self.col('a', c) for c in cols), self.tail(0.3, 0.3)), 'except'
        c, c2 = self.col(), self.col()
        un = rnd.choice(['unnest(%s.split(" "))' % c2, 'UNNEST([%s, %s])' % (c, c2), 'unnest(%s.split("x"))' % c2])
        return 'select %s, %s%s' % (rnd.choice([c, 'NR', self.sexpr()]), un, self.tail(0.3, 0.0)), 'unnest'


def gen_case(rnd, cid):
    level = rnd.choice([0, 0, 1, 1, 2, 2, 2, 3, 3])
    ncols = rnd.randint(1, 4)
    nrows = rnd.choice([0, 0, 1, 2, 3, 3, 4, 5, 6])
    with_header = rnd.random() < 0.6
    rows, kinds, pools = gen_table(rnd, ncols, nrows, level)
    header = gen_header(rnd, ncols, level) if with_header else None
    jn = None
    jrows = jheader = None
    if rnd.random() < 0.25:
        jcols = rnd.randint(1, 3)
        jrows, jk, jp = gen_table(rnd, jcols, rnd.choice([0, 1, 2, 3, 4]), level)
        # make keys overlap: copy some A cells into B's columns
        for r in jrows:
            if rows and rnd.random() < 0.7:
                r[rnd.randrange(jcols)] = rnd.choice(rows)[rnd.randrange(ncols)]
        jheader = gen_header(rnd, jcols, level) if with_header else None
        jn = {'ncols': jcols, 'header': jheader}
    q, shape = QGen(rnd, ncols, header, pools, kinds, jn).query()
    if shape == 'leftjoin-star' and not jrows:
        shape = 'leftjoin-star-emptyB'          # `*` / `b.*` over a join table without records: a class of its own
    return {'id': cid, 'query': q, 'shape': shape, 'table': rows, 'header': header, 'jtable': jrows, 'jheader': jheader}


def fixed_cases():
    """always-present members of the domain (so that every run, whatever the seed, visits these classes)"""
    A, H = [['x', '1'], ['y', '2'], ['x', '3']], ['k', 'val']
    B, BH = [['x', 'p'], ['x', 'q']], ['k2', 'w']
    S = [['1', 'two\nlines', 'x'], ['2', 'with "quotes", and comma', 'tab\there'], ['3', ' lead', '']]
    out = []
    for hdr in (True, False):
        h, bh, sh = (H, BH, ['n', 'text', 'odd name']) if hdr else (None, None, None)
        k, v = ('a.k', 'a.val') if hdr else ('a1', 'a2')
        out += [
            {'query': 'select distinct count %s' % k, 'shape': 'distinct-count', 'table': A, 'header': h, 'jtable': None, 'jheader': None},
            {'query': 'select %s, * left join b on %s == b1' % (v, k), 'shape': 'leftjoin-star', 'table': A, 'header': h, 'jtable': B, 'jheader': bh},
            {'query': 'select %s, * left join b on %s == b1' % (v, k), 'shape': 'leftjoin-star-emptyB', 'table': A, 'header': h, 'jtable': [], 'jheader': bh},
            {'query': 'select %s, b2 left join b on %s == b1' % (v, k), 'shape': 'leftjoin', 'table': A, 'header': h, 'jtable': B, 'jheader': bh},
            {'query': 'select %s, b.* join b on %s == b1' % (v, k), 'shape': 'join', 'table': A, 'header': h, 'jtable': B, 'jheader': bh},
            {'query': 'select %s, %s' % (v, k), 'shape': 'select', 'table': [], 'header': h, 'jtable': None, 'jheader': None},
            {'query': 'select *', 'shape': 'select', 'table': [], 'header': h, 'jtable': None, 'jheader': None},
            {'query': 'select %s, count(*) group by %s' % (k, k), 'shape': 'group', 'table': [], 'header': h, 'jtable': None, 'jheader': None},
            {'query': 'select a3, a2, a1', 'shape': 'select', 'table': S, 'header': sh, 'jtable': None, 'jheader': None},
            {'query': 'update a2 = a2 + a3', 'shape': 'update', 'table': S, 'header': sh, 'jtable': None, 'jheader': None},
            {'query': 'select * order by a2 desc', 'shape': 'select', 'table': S, 'header': sh, 'jtable': None, 'jheader': None},
        ]
    return [dict(c, table=cp(c['table']), jtable=cp(c['jtable'])) for c in out]


# deliberately failing queries: every entry point must fail (command line: non-zero exit + Error line)
FAILING = [
    ('syntax', 'select a1 +', 1),
    ('syntax', 'select (a1', 1),
    ('parse', 'selec a1', 1),
    ('parse', 'select a1 join b on a1 < b1', 1),
    ('runtime', 'select int(a1)', 1),
    ('runtime', 'select a1 where nosuchname == 1', 1),
    ('runtime', 'select a1, b1 strict left join b on a1 == b1', 1),
    ('runtime', 'select a1.nosuchmethod()', 1),
    ('unsortable', 'select a1 order by (a1 if NR % 2 else NR)', 2),
    ('runtime', 'select max(a1), a2', 2),
    ('runtime', 'select a1, unnest([1]), unnest([2])', 1),
]


def failing_case(cid, kind, q, header):
    table = [['x', 'p'], ['y', 'q'], ['z', 'r']]
    jt = [['nomatch', '1']]
    return {'id': cid, 'query': q, 'shape': 'fail-' + kind, 'table': table, 'header': ['k', 'val'] if header else None,
            'jtable': jt if ' join ' in q else None, 'jheader': (['k2', 'w'] if header else None) if ' join ' in q else None}


# ----------------------------------------------------------------------------------------------------------------
# outcomes

def norm_cell(v):
    if v is None:
        return ''
    if isinstance(v, float) and v != v:
        return ''
    return str(v)


def ok_table(header, rows):
    hdr = None if not header else [norm_cell(c) for c in header]
    return {'kind': 'table', 'header': hdr, 'rows': [[norm_cell(c) for c in r] for r in rows]}


def err(e):
    return {'kind': 'error', 'etype': type(e).__name__, 'msg': str(e)[:300]}


def flat(o):
    return ([o['header']] if o['header'] is not None else []) + o['rows']


def same(ref, got):
    """the relation demanded by the statement"""
    if ref['kind'] == 'error' or got['kind'] == 'error':
        return ref['kind'] == got['kind']
    if got['kind'] == 'records':
        return flat(ref) == got['records']
    return ref['header'] == got['header'] and ref['rows'] == got['rows']


def brief(o):
    if o['kind'] == 'error':
        return {'error': o.get('etype'), 'msg': o.get('msg'), 'exit': o.get('exit'), 'stderr': o.get('stderr')}
    if o['kind'] == 'records':
        return {'records': o['records'][:12]}
    return {'header': o['header'], 'rows': o['rows'][:12]}


def cp(t):
    return None if t is None else [list(r) for r in t]


# ----------------------------------------------------------------------------------------------------------------
# context: temp dir, environment isolation, the tree's modules

PANDAS_DRIVER = r'''
import json, sys
tree, inp, outp = sys.argv[1], sys.argv[2], sys.argv[3]
import rbql
import rbql.rbql_engine
assert rbql.rbql_engine.__file__.startswith(tree), rbql.rbql_engine.__file__
import rbql.rbql_pandas
assert rbql.rbql_pandas.__file__.startswith(tree), rbql.rbql_pandas.__file__
import pandas

def norm(v):
    if v is None:
        return ''
    if isinstance(v, float) and v != v:
        return ''
    return str(v)

def mk(rows, header):
    if rows is None:
        return None
    if header is None:
        return pandas.DataFrame([list(r) for r in rows])
    return pandas.DataFrame([list(r) for r in rows], columns=list(header))

res = []
for c in json.load(open(inp, encoding='utf-8')):
    w = []
    try:
        df = rbql.query_pandas_dataframe(c['query'], mk(c['table'], c['header']), w, mk(c['jtable'], c['jheader']))
        hdr = None if (isinstance(df.columns, pandas.RangeIndex) or not len(df.columns)) else [str(x) for x in df.columns]
        rows = [[norm(v) for v in r] for r in df.itertuples(index=False, name=None)]
        res.append({'kind': 'table', 'header': hdr, 'rows': rows, 'warnings': w})
    except Exception as e:
        res.append({'kind': 'error', 'etype': type(e).__name__, 'msg': str(e)[:300]})
json.dump(res, open(outp, 'w', encoding='utf-8'))
'''

SITECUSTOMIZE = r'''
import os, sys
_p = os.environ.get('RBQL_C13_TREE')
if _p:
    import rbql.rbql_engine as _e
    if not _e.__file__.startswith(_p):
        sys.stderr.write('C13-WRONG-TREE %s\n' % _e.__file__)
        sys.stderr.flush()
        os._exit(97)
'''


class Ctx(object):
    def __init__(self):
        self.rbql, self.eng = load_rbql()
        from rbql import rbql_csv, rbql_sqlite
        self.rbql_csv, self.rbql_sqlite = rbql_csv, rbql_sqlite
        self.tmp = tempfile.mkdtemp(prefix='rbql_verif_c13_')
        self.home = os.path.join(self.tmp, 'home')
        self.neutral = os.path.join(self.tmp, 'cwd')
        self.sc = os.path.join(self.tmp, 'sc')
        for d in (self.home, self.neutral, self.sc):
            os.mkdir(d)
        with open(os.path.join(self.sc, 'sitecustomize.py'), 'w') as f:
            f.write(SITECUSTOMIZE)
        with open(os.path.join(self.tmp, 'pandas_driver.py'), 'w') as f:
            f.write(PANDAS_DRIVER)
        self.counter = itertools.count()
        self.lock = threading.Lock()
        self.env = {'PATH': os.environ.get('PATH', '/usr/bin:/bin'), 'HOME': self.home, 'PYTHONPATH': self.sc + os.pathsep + TREE,
                    'PYTHONDONTWRITEBYTECODE': '1', 'LC_ALL': 'C.UTF-8', 'LANG': 'C.UTF-8', 'RBQL_C13_TREE': TREE}
        self.old_home = os.environ.get('HOME')
        self.old_cwd = os.getcwd()
        os.environ['HOME'] = self.home          # no ~/.rbql_init_source.py, no ~/.rbql_table_names
        os.chdir(self.neutral)                  # join table id `b` must only be found next to the input table
        eng = self.eng

        class UserIterator(eng.RBQLInputIterator):
            """a user-supplied record source: generator-backed, no random access"""

            def __init__(self, rows, names, prefix='a'):
                self.gen = (tuple(r) for r in rows)
                self.names = names
                self.prefix = prefix

            def get_variables_map(self, query_text):
                m = dict()
                eng.parse_basic_variables(query_text, self.prefix, m)
                eng.parse_array_variables(query_text, self.prefix, m)
                if self.names is not None:
                    eng.parse_dictionary_variables(query_text, self.prefix, self.names, m)
                    eng.parse_attribute_variables(query_text, self.prefix, self.names, 'user column names', m)
                return m

            def get_record(self):
                try:
                    return list(next(self.gen))
                except StopIteration:
                    return None

            def get_header(self):
                return self.names

        class UserWriter(eng.RBQLOutputWriter):
            def __init__(self):
                self.rows, self.header, self.finished = [], None, False

            def write(self, fields):
                self.rows.append(tuple(fields))
                return True

            def set_header(self, header):
                self.header = header

            def finish(self):
                self.finished = True

        class UserRegistry(eng.RBQLTableRegistry):
            def __init__(self, rows, names):
                self.rows, self.names = rows, names

            def get_iterator_by_table_id(self, table_id, single_char_alias):
                if table_id.lower() != 'b':
                    raise eng.RbqlParsingError('no table %s' % table_id)
                return UserIterator(self.rows, self.names, single_char_alias)

        self.UserIterator, self.UserWriter, self.UserRegistry = UserIterator, UserWriter, UserRegistry

    def rundir(self):
        with self.lock:
            n = next(self.counter)
        d = os.path.join(self.tmp, 'r%d' % n)
        os.mkdir(d)
        return d

    def close(self):
        os.chdir(self.old_cwd)
        if self.old_home is None:
            os.environ.pop('HOME', None)
        else:
            os.environ['HOME'] = self.old_home
        shutil.rmtree(self.tmp, ignore_errors=True)


# ----------------------------------------------------------------------------------------------------------------
# entry points

def e_query_table(ctx, case):
    out, hdr, w = [], [], []
    try:
        ctx.eng.query_table(case['query'], cp(case['table']), out, w, cp(case['jtable']), cp([case['header']])[0] if case['header'] else None,
                            cp([case['jheader']])[0] if case['jheader'] else None, hdr)
    except Exception as e:
        return err(e)
    o = ok_table(hdr, out)
    o['warnings'] = w
    return o


def reference(ctx, case):
    """(what every entry point must produce, what query_table produced)"""
    qt = e_query_table(ctx, case)
    if case['shape'].startswith('fail-'):       # deliberately failing query: failure is expected everywhere, query_table included
        return {'kind': 'error', 'etype': '(any)', 'msg': 'the query cannot be evaluated: it must fail through every entry point'}, qt
    return qt, qt


def e_query(ctx, case):
    eng = ctx.eng
    out, w = [], []
    try:
        it = eng.TableIterator(cp(case['table']), list(case['header']) if case['header'] else None)
        wr = eng.TableWriter(out)
        reg = None
        if case['jtable'] is not None:
            reg = eng.ListTableRegistry([eng.ListTableInfo('b', cp(case['jtable']), list(case['jheader']) if case['jheader'] else None)])
        ctx.rbql.query(case['query'], it, wr, w, reg)
    except Exception as e:
        return err(e)
    return ok_table(wr.header, out)


def e_user(ctx, case):
    w = []
    try:
        it = ctx.UserIterator(cp(case['table']), list(case['header']) if case['header'] else None)
        wr = ctx.UserWriter()
        reg = None if case['jtable'] is None else ctx.UserRegistry(cp(case['jtable']), list(case['jheader']) if case['jheader'] else None)
        ctx.rbql.query(case['query'], it, wr, w, reg)
    except Exception as e:
        return err(e)
    if not wr.finished:
        return {'kind': 'error', 'etype': 'writer-not-finished', 'msg': 'finish() was not called on the user writer'}
    return ok_table(wr.header, wr.rows)


def in_records(case):
    a = ([case['header']] if case['header'] is not None else []) + case['table']
    b = None
    if case['jtable'] is not None:
        b = ([case['jheader']] if case['jheader'] is not None else []) + case['jtable']
    return a, b


def write_inputs(d, case, delim, policy, eol='\n', final_eol=True):
    a, b = in_records(case)
    ipath = os.path.join(d, 'in.txt')
    with open(ipath, 'wb') as f:
        f.write(enc_table(a, delim, policy, eol, final_eol).encode('utf-8'))
    if b is not None:
        with open(os.path.join(d, 'b'), 'wb') as f:
            f.write(enc_table(b, delim, policy, eol, True).encode('utf-8'))
    return ipath


def e_query_csv(ctx, case, spec):
    d = ctx.rundir()
    try:
        delim, policy = spec['delim'], spec['policy']
        odelim, opolicy = spec['odelim'], spec['opolicy']
        ipath = write_inputs(d, case, delim, policy, spec.get('eol', '\n'), spec.get('final_eol', True))
        opath = os.path.join(d, 'out.txt')
        w = []
        try:
            if spec.get('header_via') == 'modifier' and case['header'] is not None:
                # the header is announced by the query modifier instead of the API flag: same table expected
                ctx.rbql_csv.query_csv(case['query'] + ' WITH (header)', ipath, delim, policy, opath, odelim, opolicy, 'utf-8', w, False)
            else:
                ctx.rbql_csv.query_csv(case['query'], ipath, delim, policy, opath, odelim, opolicy, 'utf-8', w, case['header'] is not None)
        except Exception as e:
            return err(e)
        with open(opath, 'rb') as f:
            text = f.read().decode('utf-8')
        return {'kind': 'records', 'records': dec_table(text, odelim, opolicy), 'warnings': w}
    finally:
        shutil.rmtree(d, ignore_errors=True)


def sq(name):
    return '"' + name.replace('"', '""') + '"'


def make_db(conn, case):
    for tname, rows, hdr in (('inp', case['table'], case['header']), ('b', case['jtable'], case['jheader'])):
        if rows is None:
            continue
        conn.execute('CREATE TABLE %s (%s)' % (tname, ', '.join(sq(h) + ' TEXT' for h in hdr)))
        if rows:
            conn.executemany('INSERT INTO %s VALUES (%s)' % (tname, ', '.join('?' for _ in hdr)), rows)
    conn.commit()


def e_sqlite_iter(ctx, case):
    conn = sqlite3.connect(':memory:')
    try:
        make_db(conn, case)
        out, w = [], []
        try:
            it = ctx.rbql_sqlite.SqliteRecordIterator(conn, 'inp')
            wr = ctx.eng.TableWriter(out)
            ctx.rbql.query(case['query'], it, wr, w, ctx.rbql_sqlite.SqliteDbRegistry(conn))
        except Exception as e:
            return err(e)
        return ok_table(wr.header, out)
    finally:
        conn.close()


def e_sqlite_csv(ctx, case, spec):
    d = ctx.rundir()
    conn = sqlite3.connect(':memory:')
    try:
        make_db(conn, case)
        opath = os.path.join(d, 'out.txt')
        w = []
        try:
            ctx.rbql_sqlite.query_sqlite_to_csv(case['query'], conn, 'inp', opath, spec['odelim'], spec['opolicy'], 'utf-8', w)
        except Exception as e:
            return err(e)
        with open(opath, 'rb') as f:
            text = f.read().decode('utf-8')
        return {'kind': 'records', 'records': dec_table(text, spec['odelim'], spec['opolicy']), 'warnings': w}
    finally:
        conn.close()
        shutil.rmtree(d, ignore_errors=True)


def e_pandas_batch(ctx, cases):
    if not cases:
        return []
    d = ctx.rundir()
    try:
        ip, op = os.path.join(d, 'cases.json'), os.path.join(d, 'res.json')
        with open(ip, 'w', encoding='utf-8') as f:
            json.dump([{k: c[k] for k in ('query', 'table', 'header', 'jtable', 'jheader')} for c in cases], f)
        env = dict(ctx.env)
        env['PYTHONPATH'] = TREE
        p = subprocess.run([VENV_PY, os.path.join(ctx.tmp, 'pandas_driver.py'), TREE, ip, op], cwd=ctx.neutral, env=env, stdin=subprocess.DEVNULL,
                           stdout=subprocess.PIPE, stderr=subprocess.PIPE, timeout=200)
        if p.returncode != 0 or not os.path.exists(op):
            raise RuntimeError('pandas driver failed: exit %s: %s' % (p.returncode, p.stderr.decode('utf-8', 'replace')[-800:]))
        with open(op, encoding='utf-8') as f:
            return json.load(f)
    finally:
        shutil.rmtree(d, ignore_errors=True)


ERROR_LINE = re.compile(r'^Error \[[^\]]+\]', re.M)


def run_proc(ctx, argv, cwd, stdin_bytes):
    try:
        p = subprocess.run(argv, cwd=cwd, env=ctx.env, input=stdin_bytes if stdin_bytes is not None else b'', stdout=subprocess.PIPE,
                           stderr=subprocess.PIPE, timeout=60)
    except subprocess.TimeoutExpired:
        return None, b'', b'<timeout after 60 s>'
    return p.returncode, p.stdout, p.stderr


def cli_outcome(code, out_text, stderr, from_stdout, opath, odelim, opolicy):
    """apply the command line contract; returns (outcome, contract problems)"""
    problems = []
    has_error_line = ERROR_LINE.search(stderr) is not None
    if 'C13-WRONG-TREE' in stderr or code == 97:
        raise RuntimeError('subprocess imported the wrong rbql: ' + stderr[-300:])
    if code != 0:
        if not has_error_line:
            problems.append('non-zero exit without an `Error [type]` line on stderr')
        return {'kind': 'error', 'etype': 'exit %s' % code, 'exit': code, 'stderr': stderr[-400:], 'msg': ''}, problems
    if has_error_line:
        problems.append('exit status 0 although an `Error [type]` line was printed on stderr')
    if from_stdout:
        text = out_text
    else:
        if out_text != '':
            problems.append('output went to a file but stdout is not empty: %r' % out_text[:200])
        if not os.path.exists(opath):
            problems.append('exit status 0 but the output file was not created')
            text = ''
        else:
            with open(opath, 'rb') as f:
                text = f.read().decode('utf-8', 'replace')
    return {'kind': 'records', 'records': dec_table(text, odelim, opolicy), 'exit': 0, 'stderr': stderr[-400:], 'stderr_full': stderr}, problems


def e_cli(ctx, case, spec):
    """python -m rbql --delim D [--policy P] [--with-headers] [--out-format F] --query Q [--input f] [--output g]"""
    d = ctx.rundir()
    try:
        delim, policy = spec['delim'], spec['policy']
        fmt = spec.get('fmt')
        odelim, opolicy = (delim, policy) if fmt in (None, 'input') else NAMED_FORMATS[fmt]
        ipath = write_inputs(d, case, delim, policy, spec.get('eol', '\n'), spec.get('final_eol', True))
        opath = os.path.join(d, 'out.txt')
        argv = [VENV_PY, '-m', 'rbql', '--delim', spec.get('delim_arg', delim)]
        if spec.get('explicit_policy', True):
            argv += ['--policy', policy]
        via_modifier = spec.get('header_via') == 'modifier' and case['header'] is not None
        if case['header'] is not None and not via_modifier:
            argv.append('--with-headers')
        if fmt is not None:
            argv += ['--out-format', fmt]
        argv += ['--query', case['query'] + (' WITH (header)' if via_modifier else '')]
        mode = spec['mode']
        stdin_bytes = None
        if mode[0] == 'f':
            argv += ['--input', ipath]
            cwd = ctx.neutral
        else:
            with open(ipath, 'rb') as f:
                stdin_bytes = f.read()
            cwd = d                     # a join table id is resolved relative to the current directory when reading stdin
        if mode[1] == 'f':
            argv += ['--output', opath]
        code, out, errb = run_proc(ctx, argv, cwd, stdin_bytes)
        o, problems = cli_outcome(code, out.decode('utf-8', 'replace'), errb.decode('utf-8', 'replace'), mode[1] == 's', opath, odelim, opolicy)
        o['problems'] = problems
        o['argv'] = argv[1:]
        return o
    finally:
        shutil.rmtree(d, ignore_errors=True)


def e_cli_sqlite(ctx, case, spec):
    """python -m rbql sqlite DB --input inp --query Q [--out-format csv|tsv] [--output g]"""
    d = ctx.rundir()
    try:
        dbp = os.path.join(d, 'db.sqlite')
        conn = sqlite3.connect(dbp)
        try:
            make_db(conn, case)
        finally:
            conn.close()
        fmt = spec.get('fmt')
        odelim, opolicy = (',', 'quoted_rfc') if fmt in (None, 'csv') else NAMED_FORMATS[fmt]
        opath = os.path.join(d, 'out.txt')
        argv = [VENV_PY, '-m', 'rbql', 'sqlite', dbp, '--input', 'inp', '--query', case['query']]
        if fmt is not None:
            argv += ['--out-format', fmt]
        if spec['mode'][1] == 'f':
            argv += ['--output', opath]
        code, out, errb = run_proc(ctx, argv, ctx.neutral, None)
        o, problems = cli_outcome(code, out.decode('utf-8', 'replace'), errb.decode('utf-8', 'replace'), spec['mode'][1] == 's', opath, odelim, opolicy)
        o['problems'] = problems
        o['argv'] = argv[1:]
        return o
    finally:
        shutil.rmtree(d, ignore_errors=True)


def run_entry(ctx, case, spec):
    k = spec['entry']
    if k == 'query_table':
        return e_query_table(ctx, case)
    if k == 'query':
        return e_query(ctx, case)
    if k == 'user_iter':
        return e_user(ctx, case)
    if k == 'query_csv':
        return e_query_csv(ctx, case, spec)
    if k == 'sqlite_iter':
        return e_sqlite_iter(ctx, case)
    if k == 'sqlite_to_csv':
        return e_sqlite_csv(ctx, case, spec)
    if k == 'pandas':
        return e_pandas_batch(ctx, [case])[0]
    if k == 'cli':
        return e_cli(ctx, case, spec)
    if k == 'cli_sqlite':
        return e_cli_sqlite(ctx, case, spec)
    raise ValueError(k)


def out_dialect(spec):
    if spec['entry'] == 'cli':
        return (spec['delim'], spec['policy']) if spec.get('fmt') in (None, 'input') else NAMED_FORMATS[spec['fmt']]
    if spec['entry'] == 'cli_sqlite':
        return (',', 'quoted_rfc') if spec.get('fmt') in (None, 'csv') else NAMED_FORMATS[spec['fmt']]
    return spec['odelim'], spec['opolicy']


def applicable(case, ref, spec):
    """the entry point can carry this data at all (header presence equalised; cells representable in the dialects)"""
    k = spec['entry']
    if k in ('sqlite_iter', 'sqlite_to_csv', 'cli_sqlite') and case['header'] is None:
        return False        # an sqlite table always has column names
    if k in ('query_csv', 'cli'):
        a, b = in_records(case)
        if not representable(a, spec['delim'], spec['policy']) or (b is not None and not representable(b, spec['delim'], spec['policy'])):
            return False
    if k in ('query_csv', 'cli', 'sqlite_to_csv', 'cli_sqlite') and ref['kind'] == 'table':
        od, op = out_dialect(spec)
        if not representable(flat(ref), od, op):
            return False
    return True


def judge(case, spec, ref, got):
    """None if the entry point agrees with query_table (and keeps the command line contract), else a failure record"""
    what = []
    if not same(ref, got):
        what.append('the query must fail but did not' if ref['kind'] == 'error' and case['shape'].startswith('fail-') else 'result differs from rbql.query_table')
    what += got.get('problems', [])
    if spec['entry'] in ('cli',) and got['kind'] == 'records' and spec.get('lib_warnings'):
        missing = [w for w in spec['lib_warnings'] if w not in got.get('stderr_full', got.get('stderr', ''))]
        if missing:
            what.append('warning reported by query_csv for the same input is missing on stderr: %r' % missing[:2])
    if not what:
        return None
    key = '%s:%s:%s%s' % (spec['entry'], case['shape'], 'hdr' if case['header'] is not None else 'nohdr', ':with-modifier' if spec.get('header_via') == 'modifier' else '')
    sp = {k: v for k, v in spec.items() if k != 'lib_warnings'}
    return {'replay': 'c13', 'key': key, 'what': what, 'query': case['query'], 'case': case, 'entry': sp,
            'expected': dict(brief(ref), source=('a deliberately failing query' if case['shape'].startswith('fail-') else 'rbql.query_table on the same query and data')), 'observed': dict(brief(got), argv=got.get('argv'))}


def replay_c13(rec):
    ctx = Ctx()
    try:
        case, spec = rec['case'], dict(rec['entry'])
        ref, _qt = reference(ctx, case)
        if spec['entry'] == 'cli':
            lw = e_query_csv(ctx, case, dict(spec, entry='query_csv', odelim=out_dialect(spec)[0], opolicy=out_dialect(spec)[1]))
            spec['lib_warnings'] = lw.get('warnings', []) if lw['kind'] == 'records' else []
        got = run_entry(ctx, case, spec)
        f = judge(case, spec, ref, got)
        return {'fails': f is not None, 'expected': brief(ref), 'observed': brief(got), 'what': f['what'] if f else []}
    finally:
        ctx.close()


# ----------------------------------------------------------------------------------------------------------------
# command line contract scenarios that are not table comparisons (failure classes, warning routing)

def contract_scenarios():
    """each: name, files {name: bytes}, argv tail ({D} = scenario dir), stdin (file name or None), expect 'fail' | 'ok',
    optional 'stdout' (exact expected records, dialect) and 'lib' (query, output dialect: the warnings query_csv reports for
    the same input must be on stderr)"""
    t3 = b'b,2\na,1\nc,3\n'
    S = []

    def add(name, argv, expect, files=None, stdin=None, **kw):
        S.append(dict(name=name, argv=argv, expect=expect, files=dict(files or {'t.csv': t3}), stdin=stdin, **kw))

    for via in ('file', 'stdin'):
        src = ['--input', '{D}/t.csv'] if via == 'file' else []
        sin = None if via == 'file' else 't.csv'
        sfx = ':' + via
        for nm, q in [('syntax', 'select a1 +'), ('unknown-statement', 'selec a1'), ('runtime-int', 'select int(a1)'), ('runtime-name', 'select a1 where nosuch == 1'),
                      ('unsortable-order-by', 'select a1 order by (a1 if NR % 2 else NR)'),
                      ('join-table-missing', 'select a1, b1 join nosuchtable_c13 on a1 == b1'), ('bad-aggregate', 'select max(a1), a2'),
                      ('unsortable-distinct-order', 'select distinct a1 order by (len(a1) if NR > 1 else a1)')]:
            for extra in ([], ['--out-format', 'tsv'], ['--output', '{D}/o.csv']):
                if extra and nm not in ('runtime-int', 'unsortable-order-by', 'syntax'):
                    continue
                add('fail:' + nm + sfx + (':' + extra[0].strip('-') if extra else ''), ['--delim', ',', '--query', q] + src + extra, 'fail', stdin=sin)
        add('fail:strict-left-join' + sfx, ['--delim', ',', '--query', 'select a1, b1 strict left join {D}/j.csv on a1 == b1'] + src, 'fail',
            files={'t.csv': t3, 'j.csv': b'zzz,1\n'}, stdin=sin)
        add('fail:encode-latin1' + sfx, ['--delim', ',', '--encoding', 'latin-1', '--query', 'select a1, chr(1046)'] + src, 'fail', stdin=sin)
        add('fail:policy-whitespace-with-comma' + sfx, ['--delim', ',', '--policy', 'whitespace', '--query', 'select a1'] + src, 'fail', stdin=sin)
        add('fail:rfc-broken-quotes' + sfx, ['--delim', ',', '--policy', 'quoted_rfc', '--query', 'select a1'] + src, 'fail',
            files={'t.csv': b'a,"b\nc,d\n'}, stdin=sin)
        add('fail:undecodable-utf8' + sfx, ['--delim', ',', '--query', 'select a1'] + src, 'fail', files={'t.csv': b'a,\xff\xfe\nb,c\n'}, stdin=sin)
        add('fail:output-dir-missing' + sfx, ['--delim', ',', '--query', 'select a1', '--output', '{D}/nodir/o.csv'] + src, 'fail', stdin=sin)
        add('fail:output-is-directory' + sfx, ['--delim', ',', '--query', 'select a1', '--output', '{D}'] + src, 'fail', stdin=sin)
        add('fail:no-delim' + sfx, ['--query', 'select a1'] + src, 'fail', stdin=sin)
        add('fail:policy-without-delim' + sfx, ['--policy', 'quoted', '--query', 'select a1'] + src, 'fail', stdin=sin)
        add('fail:user-init-code' + sfx, ['--delim', ',', '--query', 'select a1'] + src, 'fail', stdin=sin, home_init=b'raise ValueError("broken init")\n')
        # success + warnings
        add('warn:ragged-input' + sfx, ['--delim', ',', '--query', 'select a1'] + src, 'ok', files={'t.csv': b'a,b\nc\nd,e\n'}, stdin=sin,
            stdout=([['a'], ['c'], ['d']], ',', 'quoted'), lib=('select a1', ',', 'quoted'))
        add('warn:none-in-output' + sfx, ['--delim', ',', '--query', 'select a1, b2 left join {D}/j.csv on a1 == b1'] + src, 'ok',
            files={'t.csv': t3, 'j.csv': b'a,X\n'}, stdin=sin, stdout=([['b', ''], ['a', 'X'], ['c', '']], ',', 'quoted'),
            lib=('select a1, b2 left join {D}/j.csv on a1 == b1', ',', 'quoted'))
        add('warn:separator-in-simple-output' + sfx, ['--delim', ',', '--out-format', 'tsv', '--query', 'select a1, "p\\tq"'] + src, 'ok', stdin=sin,
            lib=('select a1, "p\\tq"', '\t', 'simple'))
        add('warn:bom' + sfx, ['--delim', ',', '--query', 'select a2, a1'] + src, 'ok', files={'t.csv': b'\xef\xbb\xbfa,b\nc,d\n'}, stdin=sin,
            stdout=([['b', 'a'], ['d', 'c']], ',', 'quoted'), lib=('select a2, a1', ',', 'quoted'))
        add('ok:plain' + sfx, ['--delim', ',', '--query', 'select a2, a1 order by a1'] + src, 'ok', stdin=sin,
            stdout=([['1', 'a'], ['2', 'b'], ['3', 'c']], ',', 'quoted'))
        add('ok:empty-input' + sfx, ['--delim', ',', '--query', 'select a2, a1'] + src, 'ok', files={'t.csv': b''}, stdin=sin, stdout=([], ',', 'quoted'))
        # an empty query is a query that does not parse (every library entry point rejects it), not a request for interactive mode
        add('fail:empty-query' + sfx, ['--delim', ',', '--query', ''] + src, 'fail', stdin=sin)
        # a non-ASCII separator is fine under utf-8 (only latin-1 cannot carry it)
        add('ok:nonascii-delim' + sfx, ['--delim', '\u2063', '--policy', 'simple', '--query', 'select a2, a1'] + src, 'ok', files={'t.csv': 'a\u2063b\nc\u2063d\n'.encode('utf-8')},
            stdin=sin, stdout=([['b', 'a'], ['d', 'c']], '\u2063', 'simple'))
        add('ok:cyrillic-delim' + sfx, ['--delim', '\u0436', '--policy', 'simple', '--query', 'select a2, a1'] + src, 'ok', files={'t.csv': 'a\u0436b\nc\u0436d\n'.encode('utf-8')},
            stdin=sin, stdout=([['b', 'a'], ['d', 'c']], '\u0436', 'simple'))
    add('fail:input-missing', ['--delim', ',', '--query', 'select a1', '--input', '{D}/no_such_table.csv'], 'fail')
    add('fail:input-is-directory', ['--delim', ',', '--query', 'select a1', '--input', '{D}'], 'fail')
    # sqlite front end of the command line
    add('sqlite:fail:no-such-table', ['sqlite', '{D}/db.sqlite', '--input', 'nosuch', '--query', 'select a1'], 'fail', db=True)
    add('sqlite:fail:runtime', ['sqlite', '{D}/db.sqlite', '--input', 'inp', '--query', 'select int(a1)'], 'fail', db=True)
    add('sqlite:fail:syntax', ['sqlite', '{D}/db.sqlite', '--input', 'inp', '--query', 'select a1 +'], 'fail', db=True)
    add('sqlite:fail:unsortable', ['sqlite', '{D}/db.sqlite', '--input', 'inp', '--query', 'select a1 order by (a1 if NR % 2 else NR)'], 'fail', db=True)
    add('sqlite:fail:db-missing', ['sqlite', '{D}/nodb.sqlite', '--input', 'inp', '--query', 'select a1'], 'fail', db=True)
    add('sqlite:fail:output-dir-missing', ['sqlite', '{D}/db.sqlite', '--input', 'inp', '--query', 'select a1', '--output', '{D}/nodir/o'], 'fail', db=True)
    add('sqlite:ok', ['sqlite', '{D}/db.sqlite', '--input', 'inp', '--query', 'select a2, a1 order by a1'], 'ok', db=True,
        stdout=([['val', 'k'], ['1', 'a'], ['2', 'b'], ['3', 'c']], ',', 'quoted_rfc'))
    return S


def scenario_lib_warnings(ctx, sc):
    """the warnings rbql_csv.query_csv reports for the scenario's input (in process); the command line must show them on stderr"""
    if not sc.get('lib'):
        return []
    q, odelim, opolicy = sc['lib']
    d = ctx.rundir()
    try:
        for fn, data in sc['files'].items():
            with open(os.path.join(d, fn), 'wb') as f:
                f.write(data if isinstance(data, bytes) else data.encode('latin-1'))
        w = []
        try:
            ctx.rbql_csv.query_csv(q.replace('{D}', d), os.path.join(d, 't.csv'), ',', 'quoted', os.path.join(d, 'o.txt'), odelim, opolicy, 'utf-8', w, False)
        except Exception:
            return []
        return w
    finally:
        shutil.rmtree(d, ignore_errors=True)


def run_scenario(ctx, sc):
    d = ctx.rundir()
    home = None
    try:
        for fn, data in sc['files'].items():
            with open(os.path.join(d, fn), 'wb') as f:
                f.write(data if isinstance(data, bytes) else data.encode('latin-1'))
        if sc.get('db'):
            conn = sqlite3.connect(os.path.join(d, 'db.sqlite'))
            try:
                make_db(conn, {'table': [['b', '2'], ['a', '1'], ['c', '3']], 'header': ['k', 'val'], 'jtable': None, 'jheader': None})
            finally:
                conn.close()
        env_ctx = ctx
        if sc.get('home_init') is not None:
            home = os.path.join(d, 'home')
            os.mkdir(home)
            hi = sc['home_init']
            with open(os.path.join(home, '.rbql_init_source.py'), 'wb') as f:
                f.write(hi if isinstance(hi, bytes) else hi.encode('latin-1'))

            class _E(object):
                env = dict(ctx.env, HOME=home)
            env_ctx = _E
        argv = [VENV_PY, '-m', 'rbql'] + [a.replace('{D}', d) for a in sc['argv']]
        stdin_bytes = None
        if sc.get('stdin'):
            with open(os.path.join(d, sc['stdin']), 'rb') as f:
                stdin_bytes = f.read()
        code, out, errb = run_proc(env_ctx, argv, ctx.neutral, stdin_bytes)
        out, stderr = out.decode('utf-8', 'replace'), errb.decode('utf-8', 'replace')
        if 'C13-WRONG-TREE' in stderr or code == 97:
            raise RuntimeError('subprocess imported the wrong rbql: ' + stderr[-300:])
        problems = []
        has_err = ERROR_LINE.search(stderr) is not None
        if sc['expect'] == 'fail':
            if code == 0:
                problems.append('failing run exited with status 0')
            if not has_err:
                problems.append('failing run printed no `Error [type]` line on stderr')
            if ERROR_LINE.search(out) is not None:
                problems.append('the Error line went to stdout')
        else:
            if code != 0:
                problems.append('successful run exited with status %s' % code)
            if has_err:
                problems.append('successful run printed an Error line on stderr')
            if sc.get('stdout') is not None:
                recs, dl, pol = sc['stdout']
                if dec_table(out, dl, pol) != [list(r) for r in recs]:
                    problems.append('stdout is not exactly the result table')
            if re.search(r'warning', out, re.I):
                problems.append('a warning was written to stdout')
            for w in sc.get('lib_warnings') or []:
                if w not in stderr:
                    problems.append('warning reported by query_csv for the same input is missing on stderr: %r' % w)
        return {'problems': problems, 'exit': code, 'stdout': out[-300:], 'stderr': stderr[-500:], 'argv': [a.replace(d, '{D}') for a in argv[1:]]}
    finally:
        shutil.rmtree(d, ignore_errors=True)


def scenario_record(sc, r):
    exp = ('non-zero exit status and a line starting with `Error [` on stderr' if sc['expect'] == 'fail' else
           'exit status 0, stdout exactly the result table %r, warnings (if any) on stderr' % (sc.get('stdout', [None])[0],))
    ser = {k: ({fk: (fv.decode('latin-1') if isinstance(fv, bytes) else fv) for fk, fv in v.items()} if k == 'files' else
               (v.decode('latin-1') if isinstance(v, bytes) else v)) for k, v in sc.items()}
    return {'replay': 'c13cli', 'key': 'clicontract:' + sc['name'], 'class': 'clicontract:' + sc['name'].split(':file')[0].split(':stdin')[0], 'what': r['problems'], 'scenario': ser, 'expected': exp,
            'observed': {'exit': r['exit'], 'stdout': r['stdout'], 'stderr': r['stderr'], 'argv': r['argv']}}


def replay_c13cli(rec):
    ctx = Ctx()
    try:
        sc = dict(rec['scenario'])
        if sc.get('stdout') is not None:
            sc['stdout'] = tuple(sc['stdout'])
        sc['lib_warnings'] = scenario_lib_warnings(ctx, sc)
        r = run_scenario(ctx, sc)
        return {'fails': bool(r['problems']), 'expected': rec.get('expected'), 'observed': r}
    finally:
        ctx.close()


# ----------------------------------------------------------------------------------------------------------------
# the job

def delim_arg(rnd, delim):
    if delim == '\t':
        return rnd.choice(['TAB', '\\t', '\t'])
    return delim


def cli_spec(rnd, d, mode, fmt):
    delim, policy = d
    return {'entry': 'cli', 'delim': delim, 'policy': policy, 'delim_arg': delim_arg(rnd, delim), 'mode': mode, 'fmt': fmt,
            'explicit_policy': True if policy != default_policy(delim) else rnd.random() < 0.4,
            'eol': rnd.choice(['\n', '\n', '\r\n']), 'final_eol': rnd.random() < 0.8}


@job('C13')
def entry_points_agree(prop, tier, seed):
    rnd = random.Random(seed * 7919 + 13)
    quick = tier == 'quick'
    n_cases = 220 if quick else 1600
    n_cli_random = 100 if quick else 1600
    n_cli_sqlite = 12 if quick else 120
    ctx = Ctx()
    fails, seen, per_shape = [], set(), {}
    n_eval = 0
    nontrivial = set()
    samples = []

    def record(f):
        if f is None or f['key'] in seen or len(fails) >= MAX_FAILS:
            return
        # one failure per input class (query shape x header presence): its key names the first disagreeing entry point in the
        # fixed order query, user_iter, sqlite_iter, query_csv, sqlite_to_csv, pandas, cli, cli_sqlite
        cls = f['key'].split(':', 1)[1] if f['replay'] == 'c13' else f.get('class', f['key'])
        if per_shape.get(cls, 0) >= 1:
            return
        per_shape[cls] = per_shape.get(cls, 0) + 1
        seen.add(f['key'])
        fails.append(f)

    try:
        cases = fixed_cases() + [gen_case(rnd, i) for i in range(n_cases)]
        for i, (kind, q, _n) in enumerate(FAILING):
            for hdr in (False, True):
                cases.append(failing_case(len(cases), kind, q, hdr))
        for i, c in enumerate(cases):
            c['id'] = i
        refs = []
        # ---- phase 1: library entry points, in process
        for ci, case in enumerate(cases):
            ref, qt = reference(ctx, case)
            n_eval += 1
            record(judge(case, {'entry': 'query_table'}, ref, qt))
            refs.append(ref)
            if ref['kind'] == 'table' and ref['rows']:
                nontrivial.add(case['query'])
            specs = [{'entry': 'query'}, {'entry': 'user_iter'}, {'entry': 'sqlite_iter'}]
            nd = len(DIALECTS)
            ins = [DIALECTS[(ci + k) % nd] for k in range(0, nd, 2)] if quick else DIALECTS
            for k, d in enumerate(ins):
                outs = [d, DIALECTS[(ci + 3 * k + 1) % nd]]
                for od in outs:
                    specs.append({'entry': 'query_csv', 'delim': d[0], 'policy': d[1], 'odelim': od[0], 'opolicy': od[1],
                                  'eol': '\r\n' if (ci + k) % 3 == 0 else '\n', 'final_eol': (ci + k) % 4 != 0})
            if case['header'] is not None and case.get('B') is None and ' with ' not in case['query'].lower() and ' join ' not in case['query'].lower():
                d = ins[0]
                specs.append({'entry': 'query_csv', 'delim': d[0], 'policy': d[1], 'odelim': d[0], 'opolicy': d[1], 'eol': '\n', 'final_eol': True, 'header_via': 'modifier'})
                if ci % 4 == 0:
                    specs.append(dict(cli_spec(random.Random(seed * 7919 + ci), d, 'ff', None), header_via='modifier'))
            for od in ((',', 'quoted_rfc'), ('\t', 'simple'), (',', 'quoted')):
                specs.append({'entry': 'sqlite_to_csv', 'odelim': od[0], 'opolicy': od[1]})
            for spec in specs:
                if not applicable(case, ref, spec):
                    continue
                got = run_entry(ctx, case, spec)
                n_eval += 1
                record(judge(case, spec, ref, got))
            if len(fails) >= MAX_FAILS:
                break
        samples = [c['query'] for c in cases[:6]]
        # ---- phase 2: pandas, one batched subprocess
        if len(fails) < MAX_FAILS:
            got_all = e_pandas_batch(ctx, cases[:len(refs)])
            for case, ref, got in zip(cases, refs, got_all):
                n_eval += 1
                record(judge(case, {'entry': 'pandas'}, ref, got))
        # ---- phase 3: the command line
        jobs = []          # (case index, spec)
        usable = list(range(len(refs)))

        def pick(spec_for, want_hdr=None, want_critical=True, start=0):
            order = usable[start % len(usable):] + usable[:start % len(usable)]
            for crit in ((True, False) if want_critical else (False,)):
                for ci in order:
                    case, ref = cases[ci], refs[ci]
                    if ref['kind'] != 'table' or (want_hdr is not None and (case['header'] is not None) != want_hdr):
                        continue
                    spec = spec_for
                    if not applicable(case, ref, spec):
                        continue
                    od, op = out_dialect(spec)
                    if crit and not critical(flat(ref), od, op):
                        continue
                    if not ref['rows'] and crit:
                        continue
                    return ci
            return None

        k = 0
        for d in DIALECTS:                                     # systematic block: dialect x {file, stdin/stdout} x header, --out-format input
            for mode in ('ff', 'ss'):
                for hdr in (True, False):
                    spec = cli_spec(rnd, d, mode, rnd.choice([None, 'input']))
                    ci = pick(spec, hdr, True, k * 37)
                    k += 1
                    if ci is not None:
                        jobs.append((ci, spec))
        for d in DIALECTS:                                     # named output formats, all four I/O modes
            for j, (mode, fmt) in enumerate([('ff', 'csv'), ('ss', 'tsv'), ('fs', 'tsv'), ('sf', 'csv')] if quick else
                                            [(m, f) for m in ('ff', 'ss', 'fs', 'sf') for f in ('csv', 'tsv')]):
                spec = cli_spec(rnd, d, mode, fmt)
                ci = pick(spec, (k % 2 == 0), True, k * 37)
                k += 1
                if ci is not None:
                    jobs.append((ci, spec))
        tries = 0
        n_target = len(jobs) + n_cli_random
        while len(jobs) < n_target and tries < n_target * 20:  # seeded tail (includes failing queries and empty results)
            tries += 1
            ci = rnd.choice(usable)
            spec = cli_spec(rnd, rnd.choice(DIALECTS), rnd.choice(['ff', 'ss', 'ff', 'ss', 'fs', 'sf']), rnd.choice([None, 'input', 'csv', 'tsv']))
            if applicable(cases[ci], refs[ci], spec):
                jobs.append((ci, spec))
        sq_jobs = []
        tries = 0
        while len(sq_jobs) < n_cli_sqlite and tries < n_cli_sqlite * 50:
            tries += 1
            ci = rnd.choice(usable)
            spec = {'entry': 'cli_sqlite', 'mode': rnd.choice(['xs', 'xf']), 'fmt': rnd.choice([None, 'csv', 'tsv'])}
            if applicable(cases[ci], refs[ci], spec):
                sq_jobs.append((ci, spec))
        jobs += sq_jobs
        # warnings the library reports for the same input must reach stderr of the command line
        for ci, spec in jobs:
            if spec['entry'] == 'cli' and refs[ci]['kind'] == 'table':
                od, op = out_dialect(spec)
                lw = e_query_csv(ctx, cases[ci], dict(spec, entry='query_csv', odelim=od, opolicy=op))
                spec['lib_warnings'] = lw.get('warnings', []) if lw['kind'] == 'records' else []
        scenarios = contract_scenarios()
        for sc in scenarios:
            sc['lib_warnings'] = scenario_lib_warnings(ctx, sc)
        if len(fails) < MAX_FAILS:
            workers = max(2, min(8, (os.cpu_count() or 2) // 2))
            with ThreadPoolExecutor(max_workers=workers) as ex:
                futs = [ex.submit(run_entry, ctx, cases[ci], spec) for ci, spec in jobs]
                sfuts = [ex.submit(run_scenario, ctx, sc) for sc in scenarios]
                results = [f.result() for f in futs]
                sresults = [f.result() for f in sfuts]
            for (ci, spec), got in zip(jobs, results):
                n_eval += 1
                record(judge(cases[ci], spec, refs[ci], got))
            for sc, r in zip(scenarios, sresults):
                n_eval += 1
                if r['problems']:
                    record(scenario_record(sc, r))
        n_cli = len(jobs) + len(scenarios)
    finally:
        ctx.close()
    return {'job': 'entry_points_agree', 'evaluations': n_eval, 'distinct_nontrivial': len(nontrivial), 'exhaustive': False,
            'rule': ('22 fixed + %d seed-generated queries (select/where/order by/distinct/distinct count/top/limit/aggregates+group by/joins/update/except/unnest over '
                     'string-typed expressions, a1 / a[1] / a.name / a["name"] column forms) + %d deliberately failing queries, each over a rectangular string '
                     'table of 1-4 columns x 0-6 rows (optional join table 1-3 x 0-4), cells from 4 spice levels (plain; empty/spaces; comma, semicolon, pipe, '
                     'quotes, non-ASCII; tab, newline), with and without header; every case through query_table (reference), query+TableIterator/TableWriter, '
                     'query+user-supplied iterator/writer/registry, query_csv for %s of 8 dialects x 2 output dialects (LF/CRLF input, with/without final '
                     'newline), sqlite iterator + query_sqlite_to_csv (3 output dialects), query_pandas_dataframe (one batched /venv subprocess); %d real '
                     '`python -m rbql` launches (8 dialects x file/stdin x file/stdout x --out-format none/input/csv/tsv x --with-headers, `rbql sqlite`, and %d '
                     'fixed contract scenarios for failure classes and warning routing)') % (
                         n_cases, 2 * len(FAILING), '4' if quick else 'all', n_cli, len(scenarios)),
            'failures': fails, 'samples': samples,
            'assumptions': ['the reference side of the relation is rbql.query_table itself (C13 is an agreement property); cells are compared as str(), None/NaN as the empty string',
                            'an entry point takes part only if it can carry the data: sqlite only with a header; a CSV dialect only if every input and result cell is representable in it',
                            'output files and stdout are parsed by an independent reader of the declared dialect (an empty line is one empty field)',
                            'HOME and the working directory are redirected to empty temp directories (no ~/.rbql_init_source.py, no ~/.rbql_table_names, join table `b` found only next to the input)',
                            'every subprocess checks that rbql.rbql_engine is loaded from the tree (sitecustomize hook for `python -m rbql`, assert in the pandas driver)',
                            'whitespace policy only for tables without empty cells/spaces; monocolumn policy, --color, latin-1 tables and interactive mode are not explored']}
