"""BOUNDED job for C19: the JavaScript engine has the same relational semantics as the reference.

Queries are generated from a language-neutral vocabulary (field references, string literals, concatenation, NR/NF arithmetic,
comparisons, like, and/or/not, length, integer conversion, split, conditional) as small expression trees.  Every tree is
rendered three times: into RBQL/Python query text, into RBQL/JavaScript query text, and into plain Python for the reference
interpreter (bounded/refsem.py; the aggregate reference is the mathematical definition of jobs_rel._ref_agg over the
reference's own pairing).  The JavaScript text runs through rbql.query_table of <REPO>/rbql-js/rbql.js in ONE node batch
driver; the Python text runs through the tree's Python query_table (for the header and the warnings, and as a third opinion
on the rows).

Compared per case: (rows) the JavaScript output table against the reference - numbers numerically, null against None;
(error) the error kind (query parsing / query execution / ...), not the message; (header) output_column_names against the
Python engine's; (warnings) warning kinds against the Python engine's; (sources) the input and join arrays handed to the
JavaScript engine are deep-equal before and after the query.  Each aspect is judged on its own, so one known difference does
not mask another.

The vocabulary is restricted to expressions that mean the same in both languages: operands of + are both strings or both
integers, comparisons are between values of one type, % only on non-negative operands, no division, no float literals,
int()/parseInt only on integer-valued strings, [k] only where the element exists, nothing but ==/!= on values that may be null.

Failures are grouped by reason class (the 'key'): one record per class with the smallest failing case of the class.
"""
import itertools
import json
import math
import os
import random
import re
import subprocess
import tempfile
import time

from .registry import job
from .refsem import load_rbql, REPO, Query, RefError, reference, run_real, join_pairs, _env, _eval
from .jobs_rel import _ref_agg

REPO_JS = os.path.join(REPO, 'rbql-js')
MAX_FAILS = 12          # reason classes reported

NODE_DRIVER = r'''
'use strict';
const fs = require('fs');
const path = require('path');
const REPO_JS = process.argv[2];
const rbql = require(path.join(REPO_JS, 'rbql.js'));
{
    const real = fs.realpathSync(REPO_JS);
    for (const k of Object.keys(require.cache)) {
        if (/(csv_utils|rbql_csv|rbql)\.js$/.test(k) && !(k.startsWith(real + path.sep) || k.startsWith(REPO_JS + path.sep)))
            throw new Error('wrong module loaded: ' + k);
    }
}

// an exception thrown outside the promise chain is routed to the case that is running
let current_reject = null;
process.on('uncaughtException', (e) => {
    if (current_reject !== null) { let r = current_reject; current_reject = null; r(e); }
    else { console.error('uncaught exception outside a case: ' + (e && e.stack ? e.stack : String(e))); process.exit(4); }
});
function guarded(work) {
    return new Promise((resolve, reject) => {
        current_reject = reject;
        work().then(resolve, reject);
    }).finally(() => { current_reject = null; });
}

function enc(v) {
    // output value -> JSON with the JavaScript type kept visible
    if (v === null) return null;
    if (v === undefined) return {'$': 'undefined'};
    if (typeof v == 'number') return Number.isFinite(v) ? v : {'$': String(v)};
    if (typeof v == 'string' || typeof v == 'boolean') return v;
    if (Array.isArray(v)) return v.map(enc);
    return {'$': 'object:' + (v.constructor ? v.constructor.name : '?')};
}

function classify_warning(msg) {
    msg = String(msg);
    let nums = (msg.match(/[0-9]+/g) || []).join(',');
    if (/Number of fields/i.test(msg)) return 'fieldcount:' + nums;
    if (/(null|None) values/.test(msg)) return 'null';
    return 'other:' + msg;
}

async function run_case(c) {
    let r = {rows: null, header: null, warnings: null, error: null, input_modified: false, join_modified: false};
    let a = JSON.parse(JSON.stringify(c.A));
    let b = c.B === null ? null : JSON.parse(JSON.stringify(c.B));
    let a_before = JSON.stringify(a), b_before = JSON.stringify(b);
    let out = [], names = [], warnings = [];
    try {
        await guarded(() => rbql.query_table(c.q, a, out, warnings, b, c.an === null ? null : c.an.slice(), c.bn === null ? null : c.bn.slice(), names));
        r.rows = out.map(rec => Array.isArray(rec) ? rec.map(enc) : enc(rec));
        r.header = names;
        r.warnings = warnings.map(classify_warning).sort();
    } catch (e) {
        let info = ['unexpected', String(e)];
        try { info = rbql.exception_to_error_info(e); } catch (e2) {}
        r.error = {cls: (e && e.constructor) ? e.constructor.name : 'unknown', kind: info[0], message: String(e && e.message).substring(0, 300)};
    }
    if (JSON.stringify(a) != a_before) { r.input_modified = true; r.input_after = a.map(rec => Array.isArray(rec) ? rec.map(enc) : enc(rec)); }
    if (JSON.stringify(b) != b_before) { r.join_modified = true; r.join_after = b === null ? null : b.map(rec => Array.isArray(rec) ? rec.map(enc) : enc(rec)); }
    return r;
}

async function main() {
    let batch = JSON.parse(fs.readFileSync(process.argv[3], 'utf8'));
    let results = [];
    for (const op of batch.ops) {
        if (op.op == 'query_list') {
            let res = [];
            for (const c of op.cases) res.push(await run_case(c));
            results.push({results: res});
        } else throw new Error('unknown op ' + op.op);
    }
    fs.writeFileSync(process.argv[4], JSON.stringify({ok: true, repo_js: REPO_JS, results: results}));
}

main().then(() => { process.exit(0); }, (e) => { console.error(e && e.stack ? e.stack : String(e)); process.exit(3); });
'''


# ------------------------------------------------------------------------------------------------ infrastructure (as in jobs_c18)
class NodeCtx(object):
    def __init__(self):
        self.tmp = tempfile.mkdtemp(prefix='rbql_verif_c19_')
        self.driver = os.path.join(self.tmp, 'driver.js')
        with open(self.driver, 'w') as f:
            f.write(NODE_DRIVER)
        self.launches = 0

    def close(self):
        for root, dirs, files in os.walk(self.tmp, topdown=False):
            for f in files:
                try:
                    os.unlink(os.path.join(root, f))
                except OSError:
                    pass
            for d in dirs:
                try:
                    os.rmdir(os.path.join(root, d))
                except OSError:
                    pass
        try:
            os.rmdir(self.tmp)
        except OSError:
            pass


def start_node(ctx, ops):
    ctx.launches += 1
    ip = os.path.join(ctx.tmp, 'batch_%d.json' % ctx.launches)
    op = os.path.join(ctx.tmp, 'result_%d.json' % ctx.launches)
    with open(ip, 'w') as f:
        json.dump({'ops': ops}, f)
    env = dict(os.environ)
    env.pop('NODE_PATH', None)
    errf = open(os.path.join(ctx.tmp, 'stderr_%d.txt' % ctx.launches), 'wb')
    proc = subprocess.Popen(['node', '--max-old-space-size=4096', ctx.driver, REPO_JS, ip, op], cwd=ctx.tmp, env=env, stdin=subprocess.DEVNULL,
                            stdout=subprocess.DEVNULL, stderr=errf)
    return proc, ip, op, errf


def finish_node(ctx, handle, timeout):
    proc, ip, op, errf = handle
    try:
        try:
            rc = proc.wait(timeout=timeout)
        except subprocess.TimeoutExpired:
            proc.kill()
            proc.wait()
            raise RuntimeError('node driver timed out after %s s' % timeout)
    finally:
        errf.close()
    if rc != 0 or not os.path.exists(op):
        with open(errf.name, 'rb') as f:
            err = f.read().decode('utf-8', 'replace')
        raise RuntimeError('node driver failed (rc=%s): %s' % (rc, err[-1500:]))
    with open(op) as f:
        res = json.load(f)
    assert res.get('ok') and res.get('repo_js') == REPO_JS, res.get('repo_js')
    return res['results']


# ------------------------------------------------------------------------------------------------ the vocabulary
# An expression is a tuple (kind, ...).  T(e) is its type: 'S' string, 'I' integer, 'B' boolean, 'L' list of strings, 'N' may be null.
ATOM_KINDS = ('f', 'fi', 's', 'n', 'v', 'null', 'len', 'int', 'str', 'like', 'up', 'low', 'split', 'idx', 'slice', 'list', 'agg', 'unnest', 'tern', 'not')


def like_regex(pattern):
    """SQL LIKE pattern -> anchored regular expression (the definition: % any run of characters, _ any one character, the rest literal)"""
    out = ''
    for ch in pattern:
        if ch == '%':
            out += '.*'
        elif ch == '_':
            out += '.'
        else:
            out += re.escape(ch)
    return '^' + out + '$'


def wrap(e, lang, ctx=None):
    """render a child expression; in parentheses unless it is atomic or an operand of the same associative operator (ctx)"""
    text = render(e, lang)
    if e[0] in ATOM_KINDS:
        return text
    if ctx is not None and ctx == ((e[0], e[1]) if e[0] == 'ar' else (e[0], None)):
        return text
    return '(' + text + ')'


def render(e, lang):
    """lang: 'py' RBQL query text with Python expressions, 'js' with JavaScript expressions, 'ref' plain Python for the reference interpreter"""
    k = e[0]
    js = lang == 'js'
    if k == 'f':
        return '%s%d' % (e[1], e[2])
    if k == 'fi':
        return '%s[%d]' % (e[1], e[2])
    if k == 's':
        return ('"%s"' if e[2] else "'%s'") % e[1]
    if k == 'n':
        return str(e[1])
    if k == 'v':
        return e[1]
    if k == 'null':
        return 'null' if js else 'None'
    if k == 'cat':
        return '%s + %s' % (wrap(e[1], lang, ('cat', None)), wrap(e[2], lang, ('cat', None)))
    if k == 'ar':
        same = (k, e[1]) if e[1] in ('+', '*') else None
        return '%s %s %s' % (wrap(e[2], lang, same), e[1], wrap(e[3], lang, None))
    if k == 'cmp':
        return '%s %s %s' % (wrap(e[2], lang), e[1], wrap(e[3], lang))
    if k == 'and' or k == 'or':
        op = {'and': '&&', 'or': '||'}[k] if js else k
        parts = []
        for c in (e[1], e[2]):
            t = render(c, lang)
            parts.append(t if c[0] in ('cmp', 'like', 'not', 'isnull', 'notnull') else '(' + t + ')')
        return '%s %s %s' % (parts[0], op, parts[1])
    if k == 'not':
        return ('!(%s)' if js else 'not (%s)') % render(e[1], lang)
    if k == 'isnull':
        return '%s == %s' % (render(e[1], lang), 'null' if js else 'None')
    if k == 'notnull':
        return '%s != %s' % (render(e[1], lang), 'null' if js else 'None')
    if k == 'len':
        if js:
            return '%s.length' % wrap(e[1], lang)
        return 'len(%s)' % render(e[1], lang)
    if k == 'int':
        return ('parseInt(%s)' if js else 'int(%s)') % render(e[1], lang)
    if k == 'str':
        return ('String(%s)' if js else 'str(%s)') % render(e[1], lang)
    if k == 'like':
        if lang == 'ref':
            return "(__import__('re').match(%r, %s) is not None)" % (like_regex(e[2]), render(e[1], lang))
        return "%s(%s, '%s')" % (e[3] if len(e) > 3 else 'like', render(e[1], lang), e[2])
    if k == 'up':
        return '%s.%s()' % (wrap(e[1], lang), 'toUpperCase' if js else 'upper')
    if k == 'low':
        return '%s.%s()' % (wrap(e[1], lang), 'toLowerCase' if js else 'lower')
    if k == 'split':
        return "%s.split('%s')" % (wrap(e[1], lang), e[2])
    if k == 'idx':
        return '%s[%d]' % (wrap(e[1], lang), e[2])
    if k == 'slice':
        return ('%s.slice(%d)' if js else '%s[%d:]') % (wrap(e[1], lang), e[2])
    if k == 'list':
        return '[%s]' % ', '.join(render(c, lang) for c in e[1])
    if k == 'tern':
        if js:
            return '(%s ? %s : %s)' % (render(e[1], lang), wrap(e[2], lang), wrap(e[3], lang))
        return '(%s if %s else %s)' % (wrap(e[2], lang), render(e[1], lang), wrap(e[3], lang))
    if k == 'agg':
        return '%s(%s)' % (e[1], '*' if e[2] is None else render(e[2], lang))
    if k == 'unnest':
        return '%s(%s)' % (e[2] if (len(e) > 2 and lang != 'ref') else 'UNNEST', render(e[1], lang))
    if k == 'star':
        return e[1]
    raise ValueError('unknown expression kind %r' % (k,))


def tup(x):
    """JSON lists -> tuples (replay records)"""
    if isinstance(x, list):
        return tuple(tup(v) for v in x)
    return x


def F(n, t='a'):
    return ('f', t, n)


def S(text, dq=False):
    return ('s', text, dq)


NR, NF, bNR = ('v', 'NR'), ('v', 'NF'), ('v', 'bNR')
STAR, ASTAR, BSTAR = ('star', '*'), ('star', 'a.*'), ('star', 'b.*')


def has_kind(e, kind):
    if isinstance(e, (tuple, list)):
        if len(e) and e[0] == kind:
            return True
        return any(has_kind(c, kind) for c in e)
    return False


class Spec(object):
    """language-neutral description of one query"""

    def __init__(self, items=None, where=None, order=None, desc=False, distinct='', top=None, limit=None, join=None, group=None, update=None, except_cols=None, family=''):
        self.items = items              # [(expr, alias|None)]
        self.where = where
        self.order = order              # [expr] or None
        self.desc = desc
        self.distinct = distinct
        self.top = top
        self.limit = limit
        self.join = join                # (kind text, [(lhs text, rhs text)])
        self.group = group              # [expr] or None; [] = aggregate query without GROUP BY
        self.update = update            # [(field number, expr)]
        self.except_cols = except_cols
        self.family = family

    def is_aggregate(self):
        return self.group is not None

    def query(self, lang):
        q = Query(items=None if self.items is None else [(render(e, lang), al) for e, al in self.items],
                  where=None if self.where is None else render(self.where, lang),
                  order=None if self.order is None else ', '.join(render(e, lang) for e in self.order), desc=self.desc, distinct=self.distinct, top=self.top, limit=self.limit,
                  join=self.join, group=', '.join(render(e, lang) for e in self.group) if self.group else None,
                  update=None if self.update is None else [(n, render(e, lang)) for n, e in self.update], except_cols=self.except_cols)
        return q

    def text(self, lang):
        t = self.query(lang).render()
        if lang == 'js' and self.join is not None and self.family.endswith('&&'):
            t = t.replace(' and ', ' && ', 1) if ' on ' in t else t
        return t

    def tags(self):
        t = ['update' if self.update is not None else 'select']
        if self.except_cols is not None:
            t.append('except')
        if self.items is not None and any(has_kind(e, 'unnest') for e, _ in self.items):
            t.append('unnest')
        if self.join is not None:
            t.append('join[%s]' % self.join[0].lower().replace(' ', '-'))
        if self.where is not None:
            t.append('where')
        if self.group is not None:
            t.append('groupby' if self.group else 'aggregate')
        if self.order is not None:
            t.append('orderby-desc' if self.desc else 'orderby')
        if self.distinct:
            t.append('distinct-count' if self.distinct == 'count' else 'distinct')
        if self.top is not None:
            t.append('top')
        if self.limit is not None:
            t.append('limit')
        return t

    def to_json(self):
        return {k: getattr(self, k) for k in ('items', 'where', 'order', 'desc', 'distinct', 'top', 'limit', 'join', 'group', 'update', 'except_cols', 'family')}

    @staticmethod
    def from_json(d):
        s = Spec()
        for k, v in d.items():
            setattr(s, k, v)
        if s.items is not None:
            s.items = [(tup(e), al) for e, al in s.items]
        if s.where is not None:
            s.where = tup(s.where)
        if s.order is not None:
            s.order = [tup(e) for e in s.order]
        if s.group is not None:
            s.group = [tup(e) for e in s.group]
        if s.update is not None:
            s.update = [(n, tup(e)) for n, e in s.update]
        if s.join is not None:
            s.join = (s.join[0], [tuple(p) for p in s.join[1]])
        return s


# ------------------------------------------------------------------------------------------------ reference
def ref_aggregate(spec, A, B):
    """C03 over the pairing of C04: one row per group in ascending key order; aggregates by their mathematical definition"""
    qref = spec.query('ref')
    pairs = join_pairs(qref, A, B or [])
    groups = {}
    for rec, nr, brec, bnr in pairs:
        env = _env(rec, nr, brec, bnr)
        if qref.where is not None and not _eval(qref.where, env, nr):
            continue
        key = tuple(_eval(render(g, 'ref'), env, nr) for g in spec.group) if spec.group else None
        vals = []
        for e, al in spec.items:
            if e[0] == 'agg':
                vals.append(1 if e[2] is None else _eval(render(e[2], 'ref'), env, nr))
            else:
                vals.append(_eval(render(e, 'ref'), env, nr))
        groups.setdefault(key, []).append((nr, vals))
    rows = []
    for key in sorted(groups):
        row = []
        for i, (e, al) in enumerate(spec.items):
            col = [v[i] for _, v in groups[key]]
            if e[0] == 'agg':
                row.append(_ref_agg(e[1].upper(), col))
            else:
                for (nr, v) in groups[key]:
                    if v[i] != col[0]:
                        raise RefError('runtime', nr)
                row.append(col[0])
        rows.append(row)
    return rows


def ref_result(spec, A, B, bounded=True):
    """-> ('ok', rows) | ('error', kind)"""
    try:
        if spec.is_aggregate():
            rows = ref_aggregate(spec, A, B)
            n = spec.limit if spec.limit is not None else spec.top
            if bounded and n is not None:
                rows = rows[:n]
            return ('ok', rows)
        q = spec.query('ref')
        if not bounded:
            q.top = q.limit = None
        return ('ok', reference(q, A, B))
    except RefError as e:
        kind = {'runtime': 'query execution', 'runtime_b': 'query execution', 'parsing': 'query parsing'}[e.kind]
        n = spec.limit if spec.limit is not None else spec.top
        if bounded and n is not None and e.kind != 'runtime_b' and spec.order is None and not spec.is_aggregate() and spec.distinct != 'count' and spec.update is None:
            # C02: a bounded query without buffering stops pulling input at the first record offered to the bounding writer after n records
            # were emitted; a record behind that point is never evaluated, so its error is never raised
            q = spec.query('ref')
            q.top = q.limit = None
            for k in range(len(A) + 1):
                try:
                    rows = reference(q, A[:k], B)
                except RefError:
                    break
                if len(rows) >= n + 1:
                    return ('ok', rows[:n])
        return ('error', kind)


def py_kind(cls):
    for k, v in (('RbqlRuntimeError', 'query execution'), ('RbqlParsingError', 'query parsing'), ('RbqlIOHandlingError', 'IO handling'), ('SyntaxError', 'syntax error')):
        if k in cls:
            return v
    return 'unexpected'


def norm_kind(k):
    return 'syntax error' if k in ('JS syntax error', 'syntax error') else k


# ------------------------------------------------------------------------------------------------ value comparison
def same_value(a, b):
    """a: value from Python (reference or engine); b: value decoded from the JavaScript result"""
    if isinstance(a, bool) or isinstance(b, bool):
        return isinstance(a, bool) and isinstance(b, bool) and a == b
    if isinstance(a, (int, float)) and isinstance(b, (int, float)):
        if isinstance(a, float) and (math.isnan(a) or math.isinf(a)):
            return False
        return abs(a - b) <= 1e-9 * max(1.0, abs(a), abs(b))
    if a is None or b is None:
        return a is None and b is None
    if isinstance(a, str) or isinstance(b, str):
        return isinstance(a, str) and isinstance(b, str) and a == b
    if isinstance(a, (list, tuple)) and isinstance(b, (list, tuple)):
        return len(a) == len(b) and all(same_value(x, y) for x, y in zip(a, b))
    return False


def same_rows(exp, got):
    return len(exp) == len(got) and all(isinstance(g, list) and same_value(e, g) for e, g in zip(exp, got))


def canon_value(v):
    if isinstance(v, bool):
        return 'b%d' % v
    if isinstance(v, (int, float)):
        return 'n%.9g' % v
    if v is None:
        return 'null'
    if isinstance(v, str):
        return 's' + v
    if isinstance(v, (list, tuple)):
        return '[' + '\x1f'.join(canon_value(x) for x in v) + ']'
    return 'o' + json.dumps(v, sort_keys=True)


def multiset(rows):
    return sorted(canon_value(r) for r in rows)


def is_sub_multiset(small, big):
    big = list(big)
    for x in small:
        if x in big:
            big.remove(x)
        else:
            return False
    return True


def classify_warning(msg):
    msg = str(msg)
    nums = ','.join(re.findall('[0-9]+', msg))
    if re.search('Number of fields', msg, re.I):
        return 'fieldcount:' + nums
    if re.search('(null|None) values', msg):
        return 'null'
    return 'other:' + msg


# ------------------------------------------------------------------------------------------------ tables
KEYS = ['x', 'y', 'x y', 'a', 'a b', 'k1', 'k10', 'Ab']
NUMS = ['1', '2', '3', '10', '-3', '0', '7', '25']
TEXTS = ['p;q', 'r', '', 'u;v;w', 'p', 'q;p', 'x']

CURATED_A = [
    [],
    [['x', '1', 'p;q']],
    [['x', '1', 'p;q'], ['y', '2', 'r'], ['x', '10', '']],
    [['b', '2', 'r'], ['a', '2', 'p'], ['b', '1', 'p;q'], ['a', '1', ''], ['b', '2', 'r']],                       # ties and duplicates
    [['a', '3', 'p'], ['a b', '5', 'q'], ['a', '4', 'r'], ['Ab', '-3', 'p'], ['a b', '0', 'p']],                   # a key that is a prefix of another key followed by a space
    [['k10', '10', 'u;v;w'], ['k9', '9', 'p'], ['k100', '100', 'q;p'], ['k9', '7', 'x']],
    [['x y', '25', 'x'], ['x', '7', 'x'], ['y', '0', ''], ['x y', '2', 'p;q'], ['x', '3', 'r'], ['y', '1', 'u;v;w']],
    [['x', str(i), 'p'] for i in range(1, 13)],                                                                     # 12 records: two-digit record numbers
]
CURATED_B = [
    [],
    [['x', 'u', '5']],
    [['x', 'u', '5'], ['x', 'v', '6'], ['y', 'w', '7']],                                                            # duplicate key, in an order that is not alphabetical in b2
    [['y', 'w', '7'], ['a b', 't', '8'], ['x', 'q', '1'], ['x', 'p', '2'], ['a', 's', '3']],
    [['zz', 'n', '0']],
    [['b', 'm', '1'], ['a', 'l', '2'], ['a', 'k', '3'], ['k9', 'j', '4']],
]
RAGGED_A = [[['x']], [['x', 'y'], ['z']], [['x'], [], ['y', 'z', 'w']], [[None, 'y'], ['x', None]], [['a;b', 'k'], ['', 'k'], ['c', 'k']], [['x', '1', 'p'], ['y', '2']], []]
RAGGED_B = [[['x', 'u'], ['y']], [['x', 'u', '5', 'extra'], ['x', 'v']], [['y', 'p', 'extra'], ['x', 'q']]]
A_NAMES = ['key', 'num', 'txt']
B_NAMES = ['bkey', 'bval', 'bnum']


def small_tables():
    """every table of <= 2 records over {x,y} x {1,2} x {p;q, ''}"""
    rows = [list(r) for r in itertools.product(['x', 'y'], ['1', '2'], ['p;q', ''])]
    out = [[]]
    out += [[r] for r in rows]
    out += [[list(r1), list(r2)] for r1 in rows for r2 in rows]
    return out


def random_table(rnd, max_rows=6, keys=None):
    keys = keys or rnd.sample(KEYS, rnd.randint(2, 4))
    return [[rnd.choice(keys), rnd.choice(NUMS), rnd.choice(TEXTS)] for _ in range(rnd.randint(0, max_rows))]


def random_b_table(rnd, keys):
    pool = keys + [rnd.choice(KEYS)]
    return [[rnd.choice(pool), rnd.choice(['u', 'v', 'w', 'p', 'q', 't u']), rnd.choice(NUMS)] for _ in range(rnd.randint(0, 5))]


# ------------------------------------------------------------------------------------------------ expression generator
LITS = [S('x'), S('y'), S('-'), S('k,1', True), S('a b'), S(' where '), S('(x'), S('p;q'), S('', True), S('order by')]
PATTERNS = ['x%', '%y', '_', '%a%', 'k1_', 'a b', '%', 'x.y', '%;%', 'p_q', 'a(%', '%0', '_%_']
LIKE_NAMES = ['like', 'LIKE']


class Gen(object):
    """seeded generator of expressions over a1 (key), a2 (integer-valued string), a3 (text); with b=True also b1, b2 (strings), b3 (integer-valued)"""

    def __init__(self, rnd, b=False):
        self.rnd = rnd
        self.b = b

    def sfield(self):
        c = [F(1), F(3), ('fi', 'a', 1), F(1), F(3)]
        if self.b:
            c += [F(1, 'b'), F(2, 'b'), ('fi', 'b', 2)]
        return self.rnd.choice(c)

    def nfield(self):
        c = [F(2), F(2), ('fi', 'a', 2)]
        if self.b:
            c.append(F(3, 'b'))
        return self.rnd.choice(c)

    def S(self, d):
        r = self.rnd.random()
        if d <= 0 or r < 0.3:
            return self.sfield() if self.rnd.random() < 0.7 else self.rnd.choice(LITS)
        if r < 0.6:
            return ('cat', self.S(d - 1), self.S(d - 1))
        if r < 0.68:
            return (self.rnd.choice(['up', 'low']), self.S(d - 1))
        if r < 0.78:
            return ('str', self.I(d - 1))
        if r < 0.88:
            return ('tern', self.B(d - 1), self.S(d - 1), self.S(d - 1))
        if r < 0.95:
            return ('idx', ('split', self.S(d - 1), self.rnd.choice([';', ' ', 'x'])), 0)
        return self.nfield()

    def nonneg(self, d):
        r = self.rnd.random()
        if r < 0.3:
            return NR
        if r < 0.45:
            return NF
        if r < 0.7:
            return ('len', self.S(d - 1))
        if r < 0.85:
            return ('ar', '+', NR, NF)
        return ('ar', '*', NR, ('n', self.rnd.randint(2, 3)))

    def I(self, d):
        r = self.rnd.random()
        if d <= 0 or r < 0.3:
            return self.rnd.choice([NR, NF, ('n', self.rnd.randint(0, 12)), ('int', self.nfield()), ('len', self.sfield())] + ([bNR] if self.b else []))
        if r < 0.7:
            return ('ar', self.rnd.choice(['+', '-', '*']), self.I(d - 1), self.I(d - 1))
        if r < 0.85:
            return ('ar', '%', self.nonneg(d), ('n', self.rnd.randint(1, 4)))
        if r < 0.93:
            return ('len', self.S(d - 1))
        return ('tern', self.B(d - 1), self.I(d - 1), self.I(d - 1))

    def B(self, d):
        r = self.rnd.random()
        if d <= 0 or r < 0.35:
            if self.rnd.random() < 0.5:
                return ('cmp', self.rnd.choice(['==', '!=', '<', '<=', '>', '>=']), self.S(0), self.S(0))
            return ('cmp', self.rnd.choice(['==', '!=', '<', '<=', '>', '>=']), self.I(0), self.I(0))
        if r < 0.5:
            return ('cmp', self.rnd.choice(['==', '!=', '<', '<=', '>', '>=']), self.S(d - 1), self.S(d - 1))
        if r < 0.62:
            return ('cmp', self.rnd.choice(['==', '!=', '<', '<=', '>', '>=']), self.I(d - 1), self.I(d - 1))
        if r < 0.75:
            return ('like', self.S(d - 1), self.rnd.choice(PATTERNS), self.rnd.choice(LIKE_NAMES))
        if r < 0.9:
            return (self.rnd.choice(['and', 'or']), self.B(d - 1), self.B(d - 1))
        return ('not', self.B(d - 1))

    def L(self, d):
        r = self.rnd.random()
        if r < 0.45:
            return ('split', self.sfield() if self.rnd.random() < 0.7 else self.S(d - 1), self.rnd.choice([';', ';', ' ', 'x']))
        if r < 0.75:
            return ('list', tuple(self.S(d - 1) for _ in range(self.rnd.randint(0, 3))))
        return ('slice', ('split', F(3), ';'), self.rnd.randint(0, 3))

    def item(self, d):
        r = self.rnd.random()
        if r < 0.45:
            return self.S(d)
        if r < 0.75:
            return self.I(d)
        if r < 0.9:
            return self.B(d)
        return self.L(1)

    def hashable_item(self, d):
        r = self.rnd.random()
        if r < 0.5:
            return self.S(d)
        if r < 0.85:
            return self.I(d)
        return self.B(d)

    def sort_key(self, d):
        return self.S(d) if self.rnd.random() < 0.5 else self.I(d)


ALIASES = ['first', 'c2', 'total', 'Name_1', 'z']
JOIN_KINDS = ['JOIN', 'INNER JOIN', 'LEFT JOIN', 'LEFT OUTER JOIN', 'STRICT LEFT JOIN']
AGG_SPELLINGS = {'COUNT': ['COUNT', 'count', 'Count'], 'MIN': ['MIN', 'min', 'Min'], 'MAX': ['MAX', 'max', 'Max'], 'SUM': ['SUM', 'sum', 'Sum'], 'AVG': ['AVG', 'avg', 'Avg'],
                 'MEDIAN': ['MEDIAN', 'median', 'Median'], 'VARIANCE': ['VARIANCE', 'variance'], 'ARRAY_AGG': ['ARRAY_AGG', 'array_agg'], 'ANY_VALUE': ['ANY_VALUE', 'any_value', 'Any_value']}


# ------------------------------------------------------------------------------------------------ case construction
def mk_case(spec, A, B=None, an=None, bn=None, oracle='reference'):
    return {'spec': spec, 'A': A, 'B': B, 'an': an, 'bn': bn, 'oracle': oracle}


def core_cases(tier, rnd):
    """deterministic pools: every core query over every small table (a seeded subset of the tables in the quick tier)"""
    quick = tier == 'quick'
    cases = []
    small = small_tables()
    a1, a2, a3 = F(1), F(2), F(3)
    x = S('x')
    # ---- select / where
    item_sets = [[a1], [a2, a1], [NR, NF], [STAR], [ASTAR, a1], [a1, STAR, NR], [S('k,1', True), a3], [('ar', '*', NF, ('n', 2))], [('fi', 'a', 1), ('fi', 'a', 2)], [('cat', a1, x)],
                 [('cat', ('cat', a1, S('-')), a3), ('len', a3)], [('int', a2), ('ar', '+', ('int', a2), NR)], [('cmp', '==', a1, x), ('cmp', '<', ('int', a2), ('n', 2))],
                 [('up', a1), ('str', NR)], [('tern', ('cmp', '==', a1, x), a3, S('no')), ('ar', '%', NR, ('n', 2))], [('split', a3, ';'), ('idx', ('split', a3, ';'), 0)],
                 [('like', a3, 'p%'), ('like', a1, '_', 'LIKE')], [('f', 'a', 4), a1]]
    wheres = [None, ('cmp', '==', a1, x), ('cmp', '>', NR, ('n', 1)), ('cmp', '==', NF, ('n', 3)), ('isnull', ('f', 'a', 4)), ('like', a3, '%;%'),
              ('and', ('cmp', '!=', a1, x), ('cmp', '>=', ('int', a2), ('n', 2))), ('or', ('cmp', '==', a3, S('', True)), ('cmp', '==', a2, S('1'))), ('not', ('cmp', '<', a1, S('y'))),
              ('cmp', '==', ('ar', '%', ('len', a3), ('n', 2)), ('n', 1))]
    qs = [Spec(items=[(e, None) for e in items], where=w, family='select') for items in item_sets for w in wheres]
    qs += [Spec(items=[(a1, 'first'), (('cat', a1, a3), 'c2')], where=w, family='alias') for w in wheres[:3]]
    for ex in ([1], [2], [1, 2], [3, 1], [2, 3]):
        for w in (None, ('cmp', '>', NR, ('n', 1))):
            qs.append(Spec(except_cols=ex, where=w, family='except'))
    # ---- unnest
    for items in ([('unnest', ('split', a3, ';'))], [a2, ('unnest', ('split', a3, ';'), 'unnest'), NR], [('unnest', ('list', (a1, a2))), STAR], [('unnest', ('slice', ('split', a3, ';'), 1)), a1],
                  [('unnest', ('list', ())), a1], [('unnest', ('split', a3, ';')), ('unnest', ('list', (a1,)))]):
        for w in (None, ('cmp', '!=', NR, ('n', 2))):
            qs.append(Spec(items=[(e, None) for e in items], where=w, family='unnest'))
    # ---- order / distinct / top / limit
    for order, desc in [(None, False), ([a1], False), ([a1], True), ([('int', a2)], True), ([a1, a2], False), ([('len', a3), a1], True), ([a3], False)]:
        for distinct in ['', 'distinct', 'count']:
            for n_kind, n in [(None, None), ('top', 0), ('top', 1), ('limit', 2), ('top', 5)]:
                for items in ([a1], [a2, a1], [STAR], [('cat', a1, x), NR]):
                    if distinct and items == [('cat', a1, x), NR]:
                        continue
                    qs.append(Spec(items=[(e, None) for e in items], order=order, desc=desc, distinct=distinct, top=n if n_kind == 'top' else None, limit=n if n_kind == 'limit' else None, family='order'))
    # ---- update
    ups = [[(1, a2)], [(1, a2), (2, a1)], [(2, S('c'))], [(1, ('v', 'NU'))], [(2, a1), (1, S('k')), (2, NR)], [(4, S('q'))], [(1, ('cat', a1, a2))], [(3, ('up', a3)), (1, ('str', ('len', a3)))]]
    for u in ups:
        for w in (None, ('cmp', '==', a1, x), ('cmp', '==', NR, ('n', 2)), ('cmp', '!=', a3, S('', True))):
            qs.append(Spec(update=u, where=w, family='update'))
    tabs = small
    if quick:
        tabs = small[:9] + rnd.sample(small[9:], 14)
    for q in qs:
        for A in tabs:
            cases.append(mk_case(q, A))
    # the same queries on the curated tables (always)
    for q in qs:
        for A in CURATED_A[2:7]:
            cases.append(mk_case(q, A))
    # ---- ragged tables and None cells: plain projections only (an expression on a missing field is not language-neutral)
    rq = [Spec(items=[(e, None) for e in items], where=w, family='ragged') for items in ([a1], [a2, a1], [NR, NF], [STAR], [ASTAR, a1], [a3, ('f', 'a', 4)], [('fi', 'a', 2), S('x')], [('isnull', a2), ('notnull', a1)])
          for w in (None, ('isnull', a2), ('cmp', '==', NF, ('n', 2)), ('cmp', '==', a1, x), ('cmp', '>', NR, ('n', 1)))]
    rq += [Spec(except_cols=ex, family='ragged') for ex in ([1], [2], [3])]
    rq += [Spec(items=[(a1, None)], order=[NF], desc=d, family='ragged') for d in (False, True)]
    rq += [Spec(update=[(1, S('n'))], where=w, family='ragged') for w in (None, ('cmp', '==', NF, ('n', 2)))] + [Spec(update=[(2, a1)], family='ragged')]
    for q in rq:
        for A in RAGGED_A:
            cases.append(mk_case(q, A))
    # ---- joins
    b1, b2, b3 = F(1, 'b'), F(2, 'b'), F(3, 'b')
    jq = []
    for kind in JOIN_KINDS:
        inner = not kind.startswith('LEFT')
        for pairs in ([('a1', 'b1')], [('a1', 'b1'), ('a2', 'b3')], [('NR', 'bNR')], [('a1', 'b1'), ('NR', 'bNR')], [('a1', 'b2')], [('b1', 'a1')], [('aNR', 'b3')], [('a3', 'b1')]):
            for items in ([a1, b2], [STAR], [a2, b1, bNR, NR], [BSTAR, a1], [ASTAR, b3]):
                jq.append(Spec(items=[(e, None) for e in items], join=(kind, pairs), family='join'))
            jq.append(Spec(items=[(a1, None), (b2, None)], join=(kind, pairs), where=('notnull', b2), order=[a1], desc=True, family='join'))
            jq.append(Spec(items=[(a1, None), (b2, None)], join=(kind, pairs), order=[a1], family='join'))
            jq.append(Spec(items=[(a1, None), (b2, None)], join=(kind, pairs), order=[a1], top=1, family='join'))
            jq.append(Spec(items=[(b1, None)], join=(kind, pairs), distinct='count', family='join'))
            jq.append(Spec(items=[(a1, None), (('unnest', ('list', (b2, b2))), None)], join=(kind, pairs), family='join'))
            jq.append(Spec(update=[(2, b2)], join=(kind, pairs), family='join-update'))
            jq.append(Spec(update=[(1, ('v', 'NU')), (3, b2)], join=(kind, pairs), where=('or', ('cmp', '==', a2, S('2')), ('cmp', '==', bNR, ('n', 1))), family='join-update'))
            jq.append(Spec(items=[(a1, None), (('agg', 'COUNT', None), None), (('agg', 'ARRAY_AGG', b2), None)], join=(kind, pairs), group=[a1], family='join-aggregate'))
            if inner:
                jq.append(Spec(items=[(('cat', a1, b2), None), (('ar', '+', ('int', a2), ('int', b3)), None)], join=(kind, pairs), where=('cmp', '<=', b2, S('v')), family='join'))
    for q in jq:
        for A in CURATED_A[:5] + [CURATED_A[6]]:
            for B in CURATED_B:
                cases.append(mk_case(q, A, B))
    # the && spelling of the key list, and ragged join tables (bare fields only)
    for kind in ('JOIN', 'LEFT JOIN', 'STRICT LEFT JOIN'):
        for B in RAGGED_B + CURATED_B[2:4]:
            for A in CURATED_A[1:4]:
                cases.append(mk_case(Spec(items=[(a1, None), (b2, None)], join=(kind, [('a1', 'b1'), ('NR', 'bNR')]), family='join&&'), A, B))
                cases.append(mk_case(Spec(items=[(STAR, None)], join=(kind, [('a1', 'b1')]), family='join'), A, B))
                cases.append(mk_case(Spec(items=[(b2, None), (('f', 'b', 4), None)], join=(kind, [('a1', 'b2')]), family='join'), A, B))
    # ---- aggregates
    agg_tabs = CURATED_A[1:] + [[['x', '2', 'p'], ['x', '2', 'p']], [['y', '-3', ''], ['x', '0', ''], ['y', '-1', 'r'], ['x', '10', 'r'], ['y', '4', 'r']]]
    aq = []
    for name in ('COUNT', 'MIN', 'MAX', 'SUM', 'AVG', 'MEDIAN', 'VARIANCE', 'ARRAY_AGG', 'ANY_VALUE'):
        for sp in AGG_SPELLINGS[name]:
            for group in ([], [a1], [a1, a3], [('ar', '%', NR, ('n', 2))], [('len', a1)]):
                for w in (None, ('cmp', '!=', a3, S('r'))):
                    arg = a2 if name != 'COUNT' else [None, ('n', 1), a2][len(aq) % 3]
                    items = [(group[0], None)] if group else []
                    items.append((('agg', sp, arg), None))
                    aq.append(Spec(items=items, where=w, group=group, family='aggregate'))
    for group in ([a1], [NR], [('ar', '%', NR, ('n', 12))], [('cat', a1, S(' '))]):
        aq.append(Spec(items=[(group[0], None), (('agg', 'COUNT', None), None), (('agg', 'MAX', a2), None), (('agg', 'MIN', ('ar', '*', ('int', a2), ('n', 2))), None), (('agg', 'ARRAY_AGG', a3), None)], group=group, family='aggregate'))
        aq.append(Spec(items=[(('agg', 'SUM', ('len', a3)), None), (group[0], None)], group=group, top=2, family='aggregate'))
        aq.append(Spec(items=[(group[0], 'grp'), (('agg', 'AVG', a2), 'mean')], group=group, limit=1, family='aggregate'))
    aq.append(Spec(items=[(a1, None), (a3, None), (('agg', 'COUNT', None), None)], group=[a1], family='aggregate'))            # a3 is not constant within the groups of most tables
    aq.append(Spec(items=[(a1, None), (S('c'), None), (('agg', 'COUNT', None), None)], group=[a1], family='aggregate'))
    for q in aq:
        for A in agg_tabs:
            cases.append(mk_case(q, A))
    # ---- very small cases of the shapes in which one input record yields several output records, and of GROUP BY keys whose order as
    # values differs from their order as text
    tiny_b = [['x', 'v', '1'], ['x', 'u', '2']]
    for q in (Spec(items=[(a1, None), (b2, None)], join=('JOIN', [('a1', 'b1')]), order=[a1], family='tiny'), Spec(items=[(a1, None), (b2, None)], join=('LEFT JOIN', [('a1', 'b1')]), order=[a1], desc=True, family='tiny'),
              Spec(items=[(a1, None), (('unnest', ('list', (b2, b2))), None)], join=('JOIN', [('a1', 'b1')]), family='tiny'), Spec(items=[(STAR, None)], join=('JOIN', [('a1', 'b1')]), distinct='distinct', family='tiny'),
              Spec(update=[(3, b2)], join=('JOIN', [('a1', 'b1')]), family='tiny')):
        cases.append(mk_case(q, [['x', '1', 'p']], tiny_b))
    for q in (Spec(items=[(a1, None), (('unnest', ('list', (S('q'), S('p')))), None)], order=[a1], family='tiny'), Spec(items=[(('unnest', ('split', a3, ';')), None)], order=[NR], desc=True, family='tiny'),
              Spec(update=[(1, a2)], family='tiny'), Spec(update=[(2, S('k'))], where=('cmp', '==', a1, S('no')), family='tiny')):
        cases.append(mk_case(q, [['x', '1', 'q;p']]))
    for q in (Spec(items=[(a1, None), (('agg', 'COUNT', None), None)], group=[a1], family='tiny'), Spec(items=[(('agg', 'MAX', a2), None), (a1, None)], group=[a1], top=1, family='tiny')):
        cases.append(mk_case(q, [['a', '1', 'p'], ['a b', '2', 'p']]))
        cases.append(mk_case(q, [['a', '1', 'p'], ['a!', '2', 'p']]))
        cases.append(mk_case(q, [['a b', '1', 'p'], ['a', '2', 'p']]))
    for q in (Spec(items=[(NR, None), (('agg', 'COUNT', None), None)], group=[NR], family='tiny'), Spec(items=[(('agg', 'ANY_VALUE', a2), None)], group=[('ar', '*', NR, ('n', 5))], family='tiny')):
        cases.append(mk_case(q, [['r', str(i), 'p'] for i in range(1, 11)]))
    # ---- column names given: output header
    hq = [Spec(items=[(e, al) for e, al in items], family='header') for items in ([(a1, None), (a2, None)], [(STAR, None)], [(a1, 'first'), (('cat', a1, a3), None)], [(NR, None), (('len', a1), None), (('fi', 'a', 3), None)],
                                                                                   [(ASTAR, None), (a1, 'z')], [(('int', a2), 'total'), (NF, None)], [(('f', 'a', 4), None), (a3, None)])]
    hq += [Spec(except_cols=[2], family='header'), Spec(update=[(2, S('k'))], family='header'), Spec(items=[(a1, None)], distinct='distinct', family='header'), Spec(items=[(a1, None)], distinct='count', family='header'),
           Spec(items=[(a1, None), (('agg', 'COUNT', None), None)], group=[a1], family='header'), Spec(items=[(a1, None), (('agg', 'MAX', a2), 'top_num')], group=[a1], family='header'),
           Spec(items=[(a3, None), (a1, None)], order=[a1], top=2, family='header')]
    for q in hq:
        for A in CURATED_A[1:4]:
            cases.append(mk_case(q, A, None, A_NAMES, None))
            if not (q.items is not None and any(e[0] == 'star' for e, _ in q.items) and any(al is not None for _, al in q.items)):
                cases.append(mk_case(q, A))         # star together with an alias needs a header (C07): not a query of the reference
    jh = [Spec(items=[(e, al) for e, al in items], join=(kind, [('a1', 'b1')]), family='header') for kind in ('JOIN', 'LEFT JOIN')
          for items in ([(a1, None), (b2, None)], [(STAR, None)], [(BSTAR, None), (a1, 'first')], [(('fi', 'b', 2), None), (('cat', a1, S('x')), None), (bNR, None)])]
    for q in jh:
        for A in CURATED_A[1:3]:
            for B in CURATED_B[1:3]:
                cases.append(mk_case(q, A, B, A_NAMES, B_NAMES))
    return cases


ERROR_QUERIES = [
    # (python text, javascript text): queries that both engines must reject the same way (or accept with the same rows); oracle: the Python engine
    ('select COUNT(*) order by a1', None), ('select a1, COUNT(*) group by a1 order by a1', None), ('select distinct COUNT(*)', None), ('select distinct count COUNT(*)', None),
    ("select a1 where a1 = 'x'", None), ('select a1 select a2', None), ('select a1 limit x', None), ('select a1 join b on a1 < b1', None), ('select a1 join c on a1 == c1', None),
    ('select a1, b1', None), ('update a1', None), ('select * except a9', None), ('select top 2 a1 limit 1', None), ('select top 1 a1 limit 2', None),
    ("select UNNEST(a3.split(';')), UNNEST(a3.split(';'))", None), ('select a1 as x, *', None), ('select a1 where a1 == "x" where a2 == "1"', None),
    ('select a1 order by a2 order by a1', None), ('select a1 limit 1 limit 2', None), ('a1, a2', None), ('select a1 join b on a1 == b1 join b on a2 == b2', None),
    ('update a1 = a2 order by a1', None), ('update a1 = COUNT(*)', None), ('select * except a1 join b on a1 == b1', None), ('update set a9 = a1', None),
    ('select a1 from a', None), ('SELECT a1 FROM a WHERE NR > 1', None), ('update a set a1 = a2', None), ('select a1 ; ', None), ('select a1;', None),
    ('select a1 strict left join b on a1 == b9', None), ('select a1 join b on a9 == b1', None), ('select a1 join b on b1 == b2', None), ('select a1 join b on a1 == b1 and', None),
    ('select a1 join b on a1 = b1', None), ('select a1 JOIN b ON a1 == b1 AND a2 == b3', None), ('select COUNT(*), a2', None), ('select COUNT(*) where NR > 5', None),
    ("select a1 group by a1", None), ('select top 0 COUNT(*)', None), ("update a2 = 'k' limit 1", None),
    ('select len(a1) where a1 == "x"', 'select a1.length where a1 == "x"'), ('select a1 where a1 == "x" and NR > 1', 'select a1 where a1 == "x" && NR > 1'),
    ('select not (NR > 1)', 'select !(NR > 1)'),
]


EXTRA_QUERIES = [
    # (python text, javascript text or None, A, B): corners that the generated vocabulary does not reach; oracle: the Python engine (rows, header, error kind)
    ('select * except a2, a2', None, [['p', 'q', 'r'], ['s', 't', 'u']], None),
    ('select * except a3, a1, a3', None, [['p', 'q', 'r', 'w']], None),
    ('select * except a2, a[2], a2', None, [['p', 'q', 'r']], None),
    ('select a1 + "$$", a2', None, [['x', '1']], None),
    ("select a1 where a2 == '$&'", None, [['x', '$&'], ['y', '$'], ['z', "select a1 where a2 == '$&'"]], None),
    ('update a2 = a2 + "$$" + "$1" + "$`"', None, [['x', '5']], None),
    ("select 'a$$b$&c$`d', a1", None, [['x']], None),
    ("select a1 where a1 == '$$' or a1 == '$'", "select a1 where a1 == '$$' || a1 == '$'", [['$$'], ['$'], ['x']], None),
    ('select SUM(a1)', None, [['2 apples'], ['3']], None),
    ('select MAX(a1), MIN(a1)', None, [['3'], ['12abc']], None),
    ('select AVG(a1)', None, [['3,5'], ['1']], None),
    ('select a2, MEDIAN(a1) group by a2', None, [['1', 'k'], ['7x', 'k']], None),
    ('select distinct a1, a2', None, [['x', None], ['x', ''], ['x', None], ['x', '']], None),
    ('select distinct count a1, a2', None, [['x', None], ['x', ''], ['x', None]], None),
    ('select distinct a2', None, [['x', None], ['y', ''], ['z', 'null'], ['w', None]], None),
    ('select distinct a1, b2 left join b on a1 == b1', None, [['k'], ['m'], ['k']], [['k', '']]),
    ('select distinct a1, a2', None, [['a', 'b\x1fc'], ['a\x1fb', 'c'], ['a,b', 'c'], ['a', 'b,c']], None),
]


def error_cases():
    cases = []
    for py, js, A_, B_ in EXTRA_QUERIES:
        cases.append({'spec': None, 'py': py, 'js': js or py, 'A': A_, 'B': B_, 'an': None, 'bn': None, 'oracle': 'python-engine'})
    A = CURATED_A[2]
    B = CURATED_B[2]
    for py, js in ERROR_QUERIES:
        for tabs in ((A, B), ([], [])):
            cases.append({'spec': None, 'py': py, 'js': js or py, 'A': tabs[0], 'B': tabs[1], 'an': None, 'bn': None, 'oracle': 'python-engine'})
    return cases


def random_cases(rnd, count):
    """seeded compositions of the vocabulary (expression depth <= 3) over seeded and curated tables"""
    cases = []
    smalls = small_tables()
    while len(cases) < count:
        r = rnd.random()
        with_join = r < 0.3
        jkind = rnd.choice(JOIN_KINDS) if with_join else None
        inner = with_join and not jkind.startswith('LEFT')
        g = Gen(rnd, b=inner)
        d = rnd.choice([1, 1, 2, 2, 3])
        keys = rnd.sample(KEYS, rnd.randint(2, 4))
        tr = rnd.random()
        A = random_table(rnd, 6, keys) if tr < 0.6 else (rnd.choice(CURATED_A) if tr < 0.85 else rnd.choice(smalls))
        B = None
        join = None
        if with_join:
            B = random_b_table(rnd, keys) if rnd.random() < 0.6 else rnd.choice(CURATED_B)
            pairs = rnd.choice([[('a1', 'b1')], [('a1', 'b1')], [('a1', 'b1'), ('a2', 'b3')], [('NR', 'bNR')], [('a3', 'b2')], [('b1', 'a1')], [('a2', 'b3')]])
            if jkind == 'STRICT LEFT JOIN' and rnd.random() < 0.7:
                # a join table in which every key of A occurs once: the strict join succeeds
                ks = []
                for rec in A:
                    if rec[0] not in ks:
                        ks.append(rec[0])
                B = [[k, rnd.choice(['u', 'v', 'w']), rnd.choice(NUMS)] for k in ks] + [['zz', 'n', '0']]
                rnd.shuffle(B)
                pairs = [('a1', 'b1')]
            join = (jkind, pairs)
        shape = rnd.random()
        where = g.B(d) if rnd.random() < 0.5 else None
        if with_join and not inner and rnd.random() < 0.3:
            where = rnd.choice([('isnull', F(2, 'b')), ('notnull', F(1, 'b'))])
        if shape < 0.12:
            # update
            n_assign = rnd.randint(1, 3)
            ups = []
            for _ in range(n_assign):
                col = rnd.choice([1, 2, 3, 3, 1, 2, 4] if rnd.random() < 0.1 else [1, 2, 3])
                e = rnd.choice([g.S(d), g.S(d), ('str', g.I(d)), ('v', 'NU'), g.I(d)])
                if col == 2:
                    e = ('str', g.I(d)) if rnd.random() < 0.5 else rnd.choice([S('4'), S('11'), F(2)])
                ups.append((col, e))
            spec = Spec(update=ups, where=where, join=join, family='update')
        elif shape < 0.2 and not with_join:
            spec = Spec(except_cols=sorted(rnd.sample([1, 2, 3], rnd.randint(1, 2)), key=lambda v: rnd.random()), where=where, top=rnd.choice([None, None, 1, 3]), family='except')
        elif shape < 0.4:
            # aggregates
            n_group = rnd.choice([0, 1, 1, 1, 2])
            group = [rnd.choice([F(1), F(3), F(1), ('ar', '%', NR, ('n', rnd.choice([2, 3, 12]))), ('len', F(1)), ('cat', F(1), S(' ')), g.S(1), ('cmp', '==', F(1), S('x'))]) for _ in range(n_group)]
            items = [(e, None) for e in group if rnd.random() < 0.8]
            for _ in range(rnd.randint(1, 3)):
                name = rnd.choice(list(AGG_SPELLINGS))
                sp = rnd.choice(AGG_SPELLINGS[name])
                if name == 'COUNT':
                    arg = rnd.choice([None, ('n', 1), F(1)])
                elif name in ('ARRAY_AGG', 'ANY_VALUE'):
                    arg = rnd.choice([F(1), F(2), F(3), g.S(1), NR])
                else:
                    arg = rnd.choice([F(2), F(2), ('int', F(2)), ('ar', '*', ('int', F(2)), ('n', 2)), ('len', F(3)), NR, ('ar', '+', ('int', F(2)), NR)])
                items.append((('agg', sp, arg), None))
            rnd.shuffle(items)
            spec = Spec(items=items, where=where, group=group, join=join, top=rnd.choice([None, None, None, 1, 2]), family='aggregate')
        elif shape < 0.5:
            # unnest
            items = [(g.item(d), None) for _ in range(rnd.randint(0, 2))]
            items.insert(rnd.randint(0, len(items)), (('unnest', g.L(d), rnd.choice(['UNNEST', 'unnest', 'Unnest'])), None))
            if rnd.random() < 0.2:
                items.append((STAR, None))
            order = [g.sort_key(1)] if rnd.random() < 0.3 else None
            spec = Spec(items=items, where=where, join=join, order=order, desc=rnd.random() < 0.5, limit=rnd.choice([None, None, 2, 4]), family='unnest')
        else:
            distinct = rnd.choice(['', '', '', 'distinct', 'count'])
            n_items = rnd.randint(1, 4)
            items = []
            for _ in range(n_items):
                rr = rnd.random()
                if rr < 0.1:
                    items.append((rnd.choice([STAR, ASTAR] + ([BSTAR] if with_join else [])), None))
                elif with_join and not inner and rr < 0.5:
                    items.append((rnd.choice([F(1, 'b'), F(2, 'b'), F(3, 'b'), ('fi', 'b', 2), bNR, ('isnull', F(2, 'b'))]), None))
                else:
                    items.append(((g.hashable_item(d) if distinct else g.item(d)), None))
            if rnd.random() < 0.15 and not any(e[0] == 'star' for e, _ in items):
                k = rnd.randrange(len(items))
                items[k] = (items[k][0], rnd.choice(ALIASES))
            order = None
            if rnd.random() < 0.45:
                order = [g.sort_key(d) for _ in range(rnd.choice([1, 1, 2]))]
            n_kind = rnd.choice([None, None, 'top', 'limit'])
            n = rnd.randint(0, 4) if n_kind else None
            spec = Spec(items=items, where=where, join=join, order=order, desc=rnd.random() < 0.5, distinct=distinct, top=n if n_kind == 'top' else None, limit=n if n_kind == 'limit' else None, family='select')
        names = rnd.random() < 0.12 and all(len(rec) == 3 for rec in A) and (B is None or all(len(rec) == 3 for rec in B))
        cases.append(mk_case(spec, A, B, A_NAMES if names else None, (B_NAMES if names else None) if B is not None else None))
    return cases


# ------------------------------------------------------------------------------------------------ judging one case
def py_view(res):
    if res[0] == 'ok':
        return {'rows': res[1], 'header': res[2], 'warnings': sorted(classify_warning(w) for w in res[3])}
    return {'error': {'cls': res[1], 'kind': py_kind(res[1]), 'message': str(res[2])[:300]}}


def texts(case):
    if case['spec'] is None:
        return case['py'], case['js']
    return case['spec'].text('py'), case['spec'].text('js')


def group_key_class(spec, case):
    """numeric-key if a GROUP BY key evaluates to a number (on the first record), else string-key"""
    try:
        A = case['A']
        brec = case['B'][0] if case['B'] else None
        env = _env(A[0], 1, brec, 1 if brec is not None else None)
        for g in spec.group:
            v = _eval(render(g, 'ref'), env, 1)
            if isinstance(v, (int, float)) and not isinstance(v, bool):
                return 'numeric-key'
    except Exception:
        pass
    return 'string-key'


def judge(case, js, py):
    """-> list of (key, aspect, expected, observed) for one case; js: node result, py: run_real result"""
    spec = case['spec']
    out = []
    tags = spec.tags() if spec is not None else [('update' if case['py'].lower().startswith('update') else 'select')]
    # the shape named in a key: the clauses that change how records flow, without join kind, WHERE, TOP/LIMIT and sort direction
    shape = '+'.join(t.split('[')[0].replace('orderby-desc', 'orderby') for t in tags if t not in ('where', 'top', 'limit'))
    if spec is None:
        shape = 'fixed-query[%s]' % re.sub('[^A-Za-z0-9=*<();.]+', '_', case['py']).strip('_')
    pv = py_view(py)
    # ---- expected rows / error
    if case['oracle'] == 'reference':
        exp = ref_result(spec, case['A'], case['B'])
    else:
        exp = ('ok', pv['rows']) if 'rows' in pv else ('error', pv['error']['kind'])
    if exp[0] == 'ok':
        if js['error'] is not None:
            if spec is not None and 'unnest' in tags and spec.join is not None and norm_kind(js['error']['kind']) == 'query parsing':
                key = 'unnest+join:rejected-with-query-parsing-error'
            else:
                key = '%s:error-instead-of-rows:%s' % (shape, norm_kind(js['error']['kind']).replace(' ', '-'))
            out.append((key, 'error', exp[1], js['error']))
        elif not same_rows(exp[1], js['rows']):
            key = None
            em, jm = multiset(exp[1]), multiset(js['rows'])
            if spec is not None:
                full = ref_result(spec, case['A'], case['B'], bounded=False) if (spec.top is not None or spec.limit is not None) and case['oracle'] == 'reference' else exp
                fm = multiset(full[1]) if full[0] == 'ok' else em
                right_rows = len(js['rows']) == len(exp[1]) and is_sub_multiset(jm, fm)
                multi = spec.join is not None or 'unnest' in tags
                if spec.is_aggregate() and spec.group and right_rows:
                    key = 'groupby:row-order:%s' % group_key_class(spec, case)
                elif spec.order is not None and multi and right_rows and not spec.is_aggregate():
                    key = 'orderby:ties-among-output-records-of-one-input-record'
                elif em == jm:
                    key = '%s:row-order' % shape
            if key is None:
                key = '%s:rows' % shape
            out.append((key, 'rows', exp[1], js['rows']))
    else:
        if js['error'] is None:
            out.append(('%s:rows-instead-of-error:%s' % (shape, exp[1].replace(' ', '-')), 'error', 'error of kind %r' % exp[1], js['rows']))
        elif norm_kind(js['error']['kind']) != norm_kind(exp[1]):
            out.append(('%s:error-kind:%s-instead-of-%s' % (shape, norm_kind(js['error']['kind']).replace(' ', '-'), norm_kind(exp[1]).replace(' ', '-')), 'error', 'error of kind %r' % exp[1], js['error']))
    # ---- header and warnings: against the Python engine, when both produced a table
    if 'rows' in pv and js['error'] is None:
        if list(pv['header']) != list(js['header']):
            out.append(('%s:header' % shape, 'header', pv['header'], js['header']))
        if pv['warnings'] != js['warnings']:
            out.append(('%s:warnings' % shape, 'warnings', pv['warnings'], js['warnings']))
    # ---- sources
    kind = tags[0]
    if js['input_modified']:
        out.append(('sources:input-table-modified:%s' % kind, 'sources', case['A'], js.get('input_after')))
    if js['join_modified']:
        out.append(('sources:join-table-modified:%s' % kind, 'sources', case['B'], js.get('join_after')))
    return out


def case_size(case):
    py, js = texts(case)
    rows = len(case['A']) + len(case['B'] or [])
    return (len(py) + 12 * rows, rows, py, json.dumps([case['A'], case['B']]))


def case_record(case):
    py, js = texts(case)
    return {'query_python': py, 'query_javascript': js, 'A': case['A'], 'B': case['B'], 'input_column_names': case['an'], 'join_column_names': case['bn'], 'oracle': case['oracle'],
            'spec': None if case['spec'] is None else case['spec'].to_json()}


def run_cases(ctx, cases, timeout):
    """-> (js results, python-engine results)"""
    batch = []
    for c in cases:
        py, js = texts(c)
        batch.append({'q': js, 'A': c['A'], 'B': c['B'], 'an': c['an'], 'bn': c['bn']})
    handle = start_node(ctx, [{'op': 'query_list', 'cases': batch}])
    try:
        py_res = []
        for c in cases:
            py, js = texts(c)
            py_res.append(run_real(py, c['A'], c['B'], c['an'], c['bn']))
    except BaseException:
        handle[0].kill()
        handle[0].wait()
        handle[3].close()
        raise
    t_py = time.time()
    res = finish_node(ctx, handle, timeout)
    return res[0]['results'], py_res, t_py


@job('C19')
def js_engine_relational_semantics(prop, tier, seed):
    rbql, eng = load_rbql()
    assert eng.__file__.startswith(os.path.join(REPO, 'rbql-py')), eng.__file__
    rnd = random.Random(seed)
    quick = tier == 'quick'
    cases = core_cases(tier, rnd)
    n_core = len(cases)
    cases += error_cases()
    n_fixed = len(cases) - n_core
    n_random = 12000 if quick else 150000
    cases += random_cases(rnd, n_random)
    ctx = NodeCtx()
    t0 = time.time()
    try:
        js_res, py_res, t_py = run_cases(ctx, cases, 200 if quick else 900)
        t_node = time.time()
    finally:
        ctx.close()
    groups = {}
    order = []
    n_fail_cases = 0
    disagree_py_ref = 0
    n_ref_errors = 0
    n_nonempty = 0
    py_ref_samples = []
    distinct_q = set()
    for c, j, p in zip(cases, js_res, py_res):
        distinct_q.add(texts(c)[1])
        verdicts = judge(c, j, p)
        if verdicts:
            n_fail_cases += 1
        if c['oracle'] == 'reference':
            exp = ref_result(c['spec'], c['A'], c['B'])
            n_ref_errors += exp[0] == 'error'
            n_nonempty += exp[0] == 'ok' and len(exp[1]) > 0
            pv = py_view(p)
            agree = (exp[0] == 'ok' and 'rows' in pv and same_rows(exp[1], json.loads(json.dumps(pv['rows'])))) or (exp[0] == 'error' and 'error' in pv and pv['error']['kind'] == exp[1])
            if not agree:
                disagree_py_ref += 1
                if len(py_ref_samples) < 3:
                    py_ref_samples.append({'query_python': texts(c)[0], 'A': c['A'], 'B': c['B'], 'reference': exp, 'python_engine': pv})
        for key, aspect, exp, obs in verdicts:
            g = groups.get(key)
            if g is None:
                g = groups[key] = {'key': key, 'aspect': aspect, 'count': 0, 'case': None, 'size': None}
                order.append(key)
            g['count'] += 1
            sz = case_size(c)
            if g['size'] is None or sz < g['size']:
                g.update(size=sz, case=c, expected=exp, observed=obs, js=j, py=p)
    fails = []
    for key in order:
        g = groups[key]
        if len(fails) >= MAX_FAILS:
            break
        c = g['case']
        rec = {'replay': 'c19', 'key': key, 'aspect': g['aspect'], 'failing_cases_of_this_class': g['count'], 'expected': g['expected'], 'observed': g['observed'],
               'expected_from': ('python engine' if g['aspect'] in ('header', 'warnings') else ('input before the query' if g['aspect'] == 'sources' else c['oracle'])),
               'javascript': {k: v for k, v in g['js'].items() if k in ('rows', 'header', 'warnings', 'error', 'input_modified', 'join_modified')}, 'python_engine': py_view(g['py']), 'case': case_record(c)}
        rec.update({k: rec['case'][k] for k in ('query_python', 'query_javascript', 'A', 'B')})
        fails.append(rec)
    by_family = {}
    for c in cases:
        fam = c['spec'].family if c['spec'] is not None else 'fixed-query'
        by_family[fam] = by_family.get(fam, 0) + 1
    rule = ('rbql.query_table of %s/rbql.js (one node batch driver) against the reference interpreter bounded/refsem.py (aggregates: mathematical definitions over the reference pairing) on queries rendered from one '
            'language-neutral expression tree into Python and JavaScript syntax; header and warnings against the tree\'s Python query_table. Deterministic part (%d cases): %s core queries x every table of <= 2 '
            'records over {x,y} x {1,2} x {p;q, empty}%s + 5 curated tables (ties, keys with spaces, two-digit numbers); projections / except / update / order on 7 ragged tables with None cells; 5 join kinds x 8 key lists '
            '(1-2 keys, NR/bNR, swapped sides) x 14 downstream shapes x 6 A x 6 B tables, && key lists and ragged join tables; 9 aggregates x spellings x {no GROUP BY, 1-2 keys, computed keys} x WHERE x 9 tables; 22 queries '
            'with and without column names; %d fixed (mostly invalid) queries whose error kind must agree with the Python engine. Seeded part: %d queries composed from the vocabulary (expression depth <= 3: fields, a[N], '
            'literals with commas / keywords / brackets, +, NR/NF arithmetic, %% on non-negative operands, 6 comparisons, like with 13 patterns, and/or/not, len/.length, int/parseInt, str/String, upper/lower, split, [0], '
            'slices, conditional) over seeded tables of <= 6 records: select / where / order by asc+desc on 1-2 keys / distinct / distinct count / top / limit / 9 aggregates with group by / 5 join kinds / update / except / unnest / aliases / column names. '
            'Compared: rows (numbers numerically, null = None, booleans as booleans), error kind, header, warning kinds, and deep equality of the input and join arrays before and after.'
            % (REPO_JS, n_core, 'all', ' (quick tier: 23 of the 73 tables)' if quick else '', n_fixed, n_random))
    return {'job': 'js_engine_relational_semantics', 'evaluations': len(cases), 'distinct_nontrivial': len(distinct_q), 'exhaustive': False, 'rule': rule,
            'bound': 'tables: <= 2 records exhaustively over 8 rows (core), <= 12 records curated, <= 6 records seeded; expression depth <= 3; %d deterministic + %d seeded cases (seed %r)' % (n_core + n_fixed, n_random, seed),
            'failures': fails, 'samples': [texts(cases[i])[1] for i in (0, n_core // 2, n_core + n_fixed + 1, len(cases) - 1)],
            'counts': {'cases': len(cases), 'by_family': by_family, 'reference_says_error': n_ref_errors, 'reference_result_not_empty': n_nonempty, 'python_engine_differs_from_reference': disagree_py_ref, 'python_engine_differs_from_reference_samples': py_ref_samples, 'cases_with_a_difference': n_fail_cases, 'reason_classes': len(groups), 'cases_per_reason_class': {k: groups[k]['count'] for k in order}},
            'node_launches': ctx.launches, 'timing_s': {'python_side': round(t_py - t0, 1), 'extra_wait_for_node': round(t_node - t_py, 1)},
            'suppressed_duplicate_failures': sum(g['count'] - 1 for g in groups.values()) + sum(groups[k]['count'] for k in order[MAX_FAILS:]),
            'assumptions': ['node executes the tree\'s JavaScript as a user\'s node would', 'the vocabulary is restricted to expressions with the same meaning in Python and JavaScript (see the module text)',
                            'floating-point aggregates (AVG, MEDIAN, VARIANCE) are compared with relative tolerance 1e-9', 'header and warnings are compared with the Python engine, not with an independent reference',
                            'the seeded part is a sample, not exhaustive']}


# ------------------------------------------------------------------------------------------------ replay
def replay_c19(case):
    rec = case.get('case') or case
    if rec.get('spec') is not None:
        spec = Spec.from_json(rec['spec'])
        c = mk_case(spec, rec['A'], rec['B'], rec.get('input_column_names'), rec.get('join_column_names'), rec.get('oracle', 'reference'))
    else:
        c = {'spec': None, 'py': rec['query_python'], 'js': rec['query_javascript'], 'A': rec['A'], 'B': rec['B'], 'an': rec.get('input_column_names'), 'bn': rec.get('join_column_names'), 'oracle': 'python-engine'}
    ctx = NodeCtx()
    try:
        js_res, py_res, _ = run_cases(ctx, [c], 60)
    finally:
        ctx.close()
    verdicts = judge(c, js_res[0], py_res[0])
    want = case.get('key')
    hit = [v for v in verdicts if v[0] == want] or verdicts
    py, js = texts(c)
    if hit:
        key, aspect, exp, obs = hit[0]
        return {'fails': True, 'key': key, 'query_python': py, 'query_javascript': js, 'A': c['A'], 'B': c['B'], 'expected': exp, 'observed': obs}
    return {'fails': False, 'query_python': py, 'query_javascript': js, 'A': c['A'], 'B': c['B'], 'expected': case.get('expected'), 'observed': js_res[0].get('rows') if js_res[0].get('error') is None else js_res[0]['error']}


@job('C19')
def js_replace_all_is_str_replace(prop, tier, seed):
    """A-JS-replace_all (contracts/js_engine.py): src.split(search).join(replacement) of rbql.js == Python str.replace, and the exported
    combine_string_literals / resolve_join_variables of rbql.js agree with the Python functions, on enumerated inputs (BOUNDED)."""
    import itertools
    import tempfile
    rbql, eng = load_rbql()
    alphabet = 'ab_'
    L = 4 if tier == 'quick' else 5
    srcs = [''.join(p) for ln in range(L + 1) for p in itertools.product(alphabet, repeat=ln)]
    searches = [''.join(p) for ln in (1, 2) for p in itertools.product(alphabet, repeat=ln)]
    repls = ['', 'x', 'ab', '_']
    cases = [(s, q, r) for s in srcs for q in searches for r in repls]
    lits = [["'x'"], ["'p'", '"q"'], ["'a'"] * 11 + ['"eleven"'], []]
    exprs = ['___RBQL_STRING_LITERAL0___', 'a1 + ___RBQL_STRING_LITERAL1___ + ___RBQL_STRING_LITERAL0___', '___RBQL_STRING_LITERAL11___ ___RBQL_STRING_LITERAL1___', 'no literal', '']
    ccases = [(e, l) for e in exprs for l in lits]
    VI = eng.VariableInfo
    amap = {'a1': 0, 'a2': 1, 'a.x': 1, 'a["k v"]': 2}
    bmap = {'b1': 0, 'b2': 1, 'b.x': 1, 'a.x': 0}
    names = ['a1', 'a2', 'b1', 'b2', 'NR', 'aNR', 'a.NR', 'bNR', 'b.NR', 'a.x', 'b.x', 'zz', 'a[___RBQL_STRING_LITERAL0___]']
    jcases = [[(x, y)] for x in names for y in names] + [[('a1', 'b1'), (x, y)] for x in names[:6] for y in names[2:9]]
    script = r'''
const fs = require('fs');
const src = fs.readFileSync(process.argv[2] + '/rbql.js', 'utf-8');
const m = src.match(/function replace_all\(src, search, replacement\) \{[\s\S]*?\n\}\n/);
const replace_all = eval('(' + m[0] + ')');
const rbql = require(process.argv[2] + '/rbql.js');
const inp = JSON.parse(fs.readFileSync(process.argv[3], 'utf-8'));
const out = {r: [], c: [], j: []};
for (const [s, q, r] of inp.cases) out.r.push(replace_all(s, q, r));
for (const [e, l] of inp.ccases) out.c.push(rbql.combine_string_literals(e, l));
const A = {}, B = {};
for (const k of Object.keys(inp.amap)) A[k] = {initialize: true, index: inp.amap[k]};
for (const k of Object.keys(inp.bmap)) B[k] = {initialize: true, index: inp.bmap[k]};
for (const pairs of inp.jcases) {
    try { out.j.push({ok: rbql.resolve_join_variables(A, B, pairs, ['"k v"'])}); } catch (e) { out.j.push({err: e.constructor.name}); }
}
fs.writeFileSync(process.argv[4], JSON.stringify(out));
'''
    tmp = tempfile.mkdtemp(prefix='c19_replace_all_')
    fails = []
    try:
        ip, op, sp = os.path.join(tmp, 'in.json'), os.path.join(tmp, 'out.json'), os.path.join(tmp, 'run.js')
        with open(ip, 'w') as f:
            json.dump({'cases': cases, 'ccases': ccases, 'jcases': jcases, 'amap': amap, 'bmap': bmap}, f)
        with open(sp, 'w') as f:
            f.write(script)
        p = subprocess.run(['node', sp, REPO_JS, ip, op], capture_output=True, text=True, timeout=600)
        if p.returncode != 0:
            raise RuntimeError('node failed: ' + p.stderr[-800:])
        out = json.load(open(op))
        for (s, q, r), got in zip(cases, out['r']):
            if got != s.replace(q, r):
                fails.append({'replay': 'none', 'key': 'replace_all:%r' % ((s, q, r),), 'expected': s.replace(q, r), 'observed': got})
        for (e, l), got in zip(ccases, out['c']):
            exp = eng.combine_string_literals(e, l)
            if got != exp:
                fails.append({'replay': 'none', 'key': 'combine_string_literals:%r' % ((e, l),), 'expected': exp, 'observed': got})
        A = dict((k, VI(True, v)) for k, v in amap.items())
        B = dict((k, VI(True, v)) for k, v in bmap.items())
        njs = 0
        for pairs, got in zip(jcases, out['j']):
            # NR / aNR on the right-hand side of == is accepted by the Python engine only (fix 1ff3878) and is outside C04's quantifier: skipped
            if any(y in ('NR', 'aNR', 'a.NR') for _, y in pairs):
                continue
            njs += 1
            try:
                lhs, rhs = eng.resolve_join_variables(A, B, [tuple(p) for p in pairs], ['"k v"'])
                exp = {'ok': [lhs, rhs]}
            except eng.RbqlParsingError:
                exp = {'err': 'RbqlParsingError'}
            if got != exp:
                fails.append({'replay': 'none', 'key': 'resolve_join_variables:%r' % (pairs,), 'expected': exp, 'observed': got})
    finally:
        import shutil
        shutil.rmtree(tmp, ignore_errors=True)
    n = len(cases) + len(ccases) + len(jcases)
    return {'job': 'js_replace_all_is_str_replace', 'evaluations': n, 'distinct_nontrivial': n, 'exhaustive': False,
            'rule': 'A-JS-replace_all validation: all (src over {a,b,_} up to length %d) x (search of length 1-2) x 4 replacements: replace_all of rbql.js (function text taken from the file) vs Python str.replace; '
                    'exported combine_string_literals and resolve_join_variables of rbql.js vs the Python functions on %d + %d enumerated inputs' % (L, len(ccases), len(jcases)),
            'failures': fails[:20], 'samples': [list(cases[7]), list(jcases[3][0])], 'assumptions': ['A-JS-replace_all: validated on the enumerated inputs only']}
